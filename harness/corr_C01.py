"""C01 — forward kinematics = reference engine.

Triangle (DESIGN.md 2.2): implementation <-> Lean Model (`Kin.forward`, float 1e-9),
Lean Spec (`Mj.kinematics`) <-> real MuJoCo (`mj_forward` xpos/xquat), theorem Model = Spec.
Spec evaluation on the implementation (`kinematics.forward` vs MuJoCo directly) is the
property's own observation: it runs on every case and is what `search` uses.
"""
from __future__ import annotations

import os
import sys

import numpy as np

HERE = os.path.dirname(os.path.abspath(__file__))
sys.path.insert(0, HERE)
import check as C  # noqa: E402
import modelgen  # noqa: E402
import wire  # noqa: E402

TOL = 1e-9


def _setup():
  import jax
  jax.config.update('jax_enable_x64', True)


def eligible_velocity_links(sysm):
  """links attached (and all ancestors attached) by a free joint or a single hinge/slide joint
  anchored at the link origin"""
  ok = []
  jp_ = np.asarray(sysm.link.joint.pos)
  for i, t in enumerate(sysm.link_types):
    good = t in 'f1' and (t == 'f' or not jp_[i].any())
    p = sysm.link_parents[i]
    ok.append(good and (p == -1 or ok[p]))
  return ok


def mj_reference(sysm, q, qd):
  import mujoco
  m = sysm.mj_model
  d = mujoco.MjData(m)
  d.qpos[:] = q
  d.qvel[:] = qd
  mujoco.mj_forward(m, d)
  n = m.nbody - 1
  vel = np.zeros((n, 6))
  for b in range(1, m.nbody):
    res = np.zeros(6)
    mujoco.mj_objectVelocity(m, d, mujoco.mjtObj.mjOBJ_XBODY, b, res, 0)
    vel[b - 1] = res
  return d.xpos[1:].copy(), d.xquat[1:].copy(), vel


def quat_close(a, b, tol):
  return np.allclose(a, b, atol=tol, rtol=0) or np.allclose(a, -b, atol=tol, rtol=0)


def run_cases(ctx, n_models, n_states, gen_opts=None, seed_offset=0):
  _setup()
  import jax
  import jax.numpy as jp
  from brax import kinematics
  from brax.io import mjcf
  rng = np.random.default_rng(ctx.seed + seed_offset)
  lines, cases = [], []
  spec_failures, known_seen = [], []
  hist = {}
  for mi in range(n_models):
    opts = dict(gen_opts or {})
    if mi in (0, 1) and not gen_opts:
      # history dependence within one process: the same joint layout as a chain, then as a star
      opts.update(n_links=(4, 4), stack=(1, 1), roots='world', topology=('chain', 'star')[mi])
    elif mi % 2 == 1 and 'stack' not in opts:
      # velocity clause of the property: single joints anchored at the link origin
      opts.update(stack=(1, 1), anchor_offset=False)
    xml, meta = modelgen.gen_model(rng, **opts)
    try:
      sysm = mjcf.loads(xml)
    except Exception as e:  # a generator model (inside the quantifier) must load
      spec_failures.append(dict(key=f'exception:{type(e).__name__}', what=f'mjcf.loads raises {type(e).__name__}: {e} on a generator model',
                                xml=xml, q=[], qd=[], link=0))
      continue
    fwd = jax.jit(lambda q, qd, sysm=sysm: kinematics.forward(sysm, q, qd))
    hist[meta['link_types']] = hist.get(meta['link_types'], 0) + 1
    st = wire.sys_tokens(sysm)
    elig = eligible_velocity_links(sysm)
    for si in range(n_states):
      q, qd = modelgen.rand_state(rng, sysm)
      x, xd = fwd(jp.asarray(q), jp.asarray(qd))
      real = np.concatenate([np.asarray(x.pos), np.asarray(x.rot), np.asarray(xd.ang), np.asarray(xd.vel)], axis=1)
      mpos, mquat, mvel = mj_reference(sysm, q, qd)
      # ---- spec on implementation: the property's observation
      for i in range(len(sysm.link_types)):
        if not np.allclose(real[i, :3], mpos[i], atol=1e-8, rtol=0) or not quat_close(real[i, 3:7], mquat[i], 1e-8):
          spec_failures.append(dict(key=f'pose:{meta["link_types"]}', what=f'link {i} pose differs from MuJoCo',
                                    xml=xml, q=q.tolist(), qd=qd.tolist(), link=i,
                                    brax=real[i, :7].tolist(), mujoco=np.concatenate([mpos[i], mquat[i]]).tolist()))
          break
        if elig[i] and not np.allclose(real[i, 7:13], mvel[i], atol=1e-8, rtol=0):
          spec_failures.append(dict(key=f'vel:{sysm.link_types[i]}', what=f'link {i} velocity differs from MuJoCo (eligible link)',
                                    xml=xml, q=q.tolist(), qd=qd.tolist(), link=i,
                                    brax=real[i, 7:13].tolist(), mujoco=mvel[i].tolist()))
          break
      args = st + wire.vec_tokens(q) + wire.vec_tokens(qd)
      lines.append(' '.join(['fwd'] + args))
      lines.append(' '.join(['mjfwd'] + args))
      lines.append(' '.join(['mjvel'] + args))
      cases.append(dict(xml=xml, q=q, qd=qd, real=real, mpos=mpos, mquat=mquat, mvel=mvel, types=meta['link_types'],
                        parents=meta['parents']))
  out = C.run_driver('Driver/C01.lean', lines)
  disagreements = []
  for k, c in enumerate(cases):
    o_fwd, o_mj, o_mv = out[3 * k], out[3 * k + 1], out[3 * k + 2]
    n = len(c['types'])
    if o_fwd.startswith('bad') or o_mj.startswith('bad') or o_mv.startswith('bad'):
      disagreements.append(dict(what=f'driver: {o_fwd[:20]} / {o_mj[:20]}', xml=c['xml'])); continue
    mod = np.array([wire.parse(t) for t in o_fwd.split()]).reshape(n, 13)
    spec = np.array([wire.parse(t) for t in o_mj.split()]).reshape(n, 7)
    specv = np.array([wire.parse(t) for t in o_mv.split()]).reshape(n, 13)
    real = c['real']
    for i in range(n):
      if not (np.allclose(mod[i, :3], real[i, :3], atol=TOL, rtol=TOL) and quat_close(mod[i, 3:7], real[i, 3:7], TOL)
              and np.allclose(mod[i, 7:], real[i, 7:], atol=TOL, rtol=TOL)):
        disagreements.append(dict(what=f'Kin.forward (Lean) differs from kinematics.forward at link {i} of {c["types"]}',
                                  xml=c['xml'], q=c['q'].tolist(), qd=c['qd'].tolist(),
                                  lean=mod[i].tolist(), real=real[i].tolist()))
        break
      if not (np.allclose(spec[i, :3], c['mpos'][i], atol=1e-8, rtol=0) and quat_close(spec[i, 3:], c['mquat'][i], 1e-8)):
        disagreements.append(dict(what=f'Spec Mj.kinematics (Lean) differs from mujoco.mj_forward at link {i} of {c["types"]}',
                                  xml=c['xml'], q=c['q'].tolist(), lean=spec[i].tolist(),
                                  mujoco=np.concatenate([c['mpos'][i], c['mquat'][i]]).tolist()))
        break
      if not np.allclose(specv[i, 7:], c['mvel'][i], atol=1e-8, rtol=0):
        disagreements.append(dict(what=f'Spec Mj.kinematicsVel (Lean) differs from mujoco.mj_objectVelocity at link {i} of {c["types"]}',
                                  xml=c['xml'], q=c['q'].tolist(), qd=c['qd'].tolist(), lean=specv[i, 7:].tolist(),
                                  mujoco=c['mvel'][i].tolist()))
        break
  return cases, disagreements, spec_failures, hist


def types_coded(scan, jp, sysm, typs, q, qd, lines, expect, what, tag):
  """the real scan.link_types with output kinds 'l', 'q', 'd' vs the type-grouped transcription"""
  from brax.base import Q_WIDTHS, QD_WIDTHS
  def parts(typ, qs, qds):
    qs = qs.reshape((-1, Q_WIDTHS[typ])); qds = qds.reshape((-1, QD_WIDTHS[typ]))
    hq = jp.zeros(qs.shape[0]); hqd = jp.zeros(qs.shape[0])
    for c in range(Q_WIDTHS[typ]): hq = hq * 10 + qs[:, c]
    for c in range(QD_WIDTHS[typ]): hqd = hqd * 10 + qds[:, c]
    return qs, qds, hq, hqd
  def fl(typ, qs, qds):
    qs, qds, hq, hqd = parts(typ, qs, qds); return hq + 7 * hqd
  def fq(typ, qs, qds):
    qs, qds, hq, hqd = parts(typ, qs, qds); return (qs * 3 + hqd[:, None]).reshape(-1)
  def fd(typ, qs, qds):
    qs, qds, hq, hqd = parts(typ, qs, qds); return (qds * 2 + hq[:, None]).reshape(-1)
  qa, qda = jp.asarray(q, dtype=jp.float64), jp.asarray(qd, dtype=jp.float64)
  hdr = [typs, str(len(q))] + [str(int(v)) for v in q] + [str(len(qd))] + [str(int(v)) for v in qd]
  for kind, f in (('l', fl), ('q', fq), ('d', fd)):
    r = scan.link_types(sysm, f, 'qd', kind, qa, qda)
    lines.append(' '.join(['typescoded', kind] + hdr))
    expect.append([int(round(float(v))) for v in np.asarray(r)])
    what.append((f"scan.link_types (out '{kind}') vs its type-grouped transcription{tag}", typs))


def layer_b(ctx, n_cases):
  """exact-integer tie of Layer B: the real `scan.tree` (both directions) and
  `scan.link_types` against `Kin.scanFwd` / `Kin.scanRev` / `Kin.linkSlices` on random forests
  of up to 40 links with an injective integer step (a misrouted index cannot cancel)"""
  _setup()
  import types as pytypes
  import jax.numpy as jp
  from brax import scan
  from brax.base import Q_WIDTHS, QD_WIDTHS
  rng = np.random.default_rng(ctx.seed + 77)
  M = 1000003
  lines, expect, what = [], [], []
  for _ in range(n_cases):
    n = int(rng.integers(1, 41))
    parents = [int(rng.integers(-1, i)) if i else -1 for i in range(n)]
    if rng.random() < 0.3:   # chains and stars
      parents = [i - 1 for i in range(n)] if rng.random() < 0.5 else [-1] + [0] * (n - 1)
    typs = ''.join(rng.choice(list('f123'), size=n))
    sysm = pytypes.SimpleNamespace(link_types=typs, link_parents=tuple(parents))
    a = rng.integers(0, 1000, size=n)
    fwd = scan.tree(sysm, lambda y, x: x % M if y is None else (31 * y + x) % M, 'l', jp.asarray(a))
    rev = scan.tree(sysm, lambda y, x: (x + 7) % M if y is None else (x + 37 * y) % M, 'l',
                    jp.asarray(a), reverse=True)
    hdr = [str(n)] + [str(p) for p in parents] + [str(n)] + [str(int(v)) for v in a]
    lines.append(' '.join(['scanfwd'] + hdr)); expect.append([int(v) for v in np.asarray(fwd)]); what.append(('scan.tree', parents))
    lines.append(' '.join(['scanlevels'] + hdr)); expect.append([int(v) for v in np.asarray(fwd)]); what.append(('scan.tree vs its level-grouped transcription', parents))
    lines.append(' '.join(['scanrev'] + hdr)); expect.append([int(round(float(v))) for v in np.asarray(rev)]); what.append(('scan.tree reverse', parents))
    lines.append(' '.join(['scanlevelsrev'] + hdr)); expect.append([int(round(float(v))) for v in np.asarray(rev)]); what.append(('scan.tree reverse vs its level-grouped transcription', parents))
    nq = sum(Q_WIDTHS[t] for t in typs); nv = sum(QD_WIDTHS[t] for t in typs)
    q = rng.integers(0, 10, size=nq); qd = rng.integers(0, 10, size=nv)
    def f(typ, qs, qds):
      qs = qs.reshape((-1, Q_WIDTHS[typ])); qds = qds.reshape((-1, QD_WIDTHS[typ]))
      hq = jp.zeros(qs.shape[0]); hqd = jp.zeros(qs.shape[0])
      for c in range(Q_WIDTHS[typ]): hq = hq * 10 + qs[:, c]
      for c in range(QD_WIDTHS[typ]): hqd = hqd * 10 + qds[:, c]
      return hq, hqd
    hq, hqd = scan.link_types(sysm, f, 'qd', 'll', jp.asarray(q, dtype=jp.float64), jp.asarray(qd, dtype=jp.float64))
    lines.append(' '.join(['slices', typs, str(nq)] + [str(int(v)) for v in q] + [str(nv)] + [str(int(v)) for v in qd]))
    expect.append([int(v) for pair in zip(np.asarray(hq), np.asarray(hqd)) for v in pair]); what.append(('scan.link_types', typs))
    types_coded(scan, jp, sysm, typs, q, qd, lines, expect, what, '')
  # exhaustive: EVERY string of link types of up to 5 links (1364 strings; 6 in thorough) through the real
  # scan.link_types for the three output kinds, against the type-grouped transcription
  import itertools as _it
  for n in range(1, ctx.budget(5, 6) + 1):
    for tup in _it.product('f123', repeat=n):
      typs = ''.join(tup)
      sysm = pytypes.SimpleNamespace(link_types=typs, link_parents=tuple(range(-1, n - 1)))
      nq = sum(Q_WIDTHS[t] for t in typs); nv = sum(QD_WIDTHS[t] for t in typs)
      q = [(3 * i + 1 + n) % 10 for i in range(nq)]; qd = [(7 * i + 2 + n) % 10 for i in range(nv)]
      types_coded(scan, jp, sysm, typs, np.asarray(q), np.asarray(qd), lines, expect, what, ' (exhaustive)')
  # exhaustive: EVERY forest with parents preceding children of up to 6 links (873 forests; the property's
  # quantifier is forests of 1-6 links) — 7 links (5040 more) in thorough — through the real scan.tree, both directions
  import itertools
  for n in range(1, ctx.budget(6, 7) + 1):
    for ps in itertools.product(*[range(-1, i) for i in range(n)]):
      parents = list(ps)
      sysm = pytypes.SimpleNamespace(link_types='1' * n, link_parents=tuple(parents))
      a = [(7 * (i + 1) + 3 * n) % 1000 for i in range(n)]
      fwd = scan.tree(sysm, lambda y, x: x % M if y is None else (31 * y + x) % M, 'l', jp.asarray(a))
      rev = scan.tree(sysm, lambda y, x: (x + 7) % M if y is None else (x + 37 * y) % M, 'l', jp.asarray(a), reverse=True)
      hdr = [str(n)] + [str(p) for p in parents] + [str(n)] + [str(v) for v in a]
      lines.append(' '.join(['scanfwd'] + hdr)); expect.append([int(v) for v in np.asarray(fwd)]); what.append(('scan.tree (exhaustive)', parents))
      lines.append(' '.join(['scanlevels'] + hdr)); expect.append([int(v) for v in np.asarray(fwd)]); what.append(('scan.tree vs its level-grouped transcription (exhaustive)', parents))
      lines.append(' '.join(['scanrev'] + hdr)); expect.append([int(round(float(v))) for v in np.asarray(rev)]); what.append(('scan.tree reverse (exhaustive)', parents))
      lines.append(' '.join(['scanlevelsrev'] + hdr)); expect.append([int(round(float(v))) for v in np.asarray(rev)]); what.append(('scan.tree reverse vs its level-grouped transcription (exhaustive)', parents))
  out = C.run_driver('Driver/C01.lean', lines)
  dis = []
  for o, e, w in zip(out, expect, what):
    got = [int(t) for t in o.split()] if not o.startswith('bad') else o
    if got != e:
      dis.append(dict(what=f'Layer B: {w[0]} differs from its model', shape=w[1], lean=got, real=e))
  return len(lines), dis[:5]


def correspond(ctx):
  cases, dis, fails, hist = run_cases(ctx, ctx.budget(30, 300), 3)
  n_b, dis_b = layer_b(ctx, ctx.budget(12, 200))
  dis = dis + dis_b
  distinct = len({(c['types'], tuple(c['parents'])) for c in cases})
  sample = dict(link_types=cases[0]['types'], parents=cases[0]['parents'], q=cases[0]['q'].tolist()[:8])
  return dict(
      evaluations=3 * len(cases) + n_b, distinct_nontrivial=distinct,
      rule='generator forests (1-6 links, free/world roots, 1-3 stacked hinge/slide joints with arbitrary axes, '
           'offsets, anchors) x 3 states (q in [-2,2], unit root quaternions, qd in [-1,1]); each case: real '
           'kinematics.forward vs Lean Kin.forward (1e-9), Lean Mj.kinematics vs mujoco.mj_forward (1e-8), and real '
           'forward vs MuJoCo (the property itself); distinct = distinct (link_types, parents) shapes',
      samples=[sample], disagreements=dis, spec_failures=fails,
      trusted_base=['correspondence harness corr_C01.py (sampled inputs, float64 1e-9)',
                    'MuJoCo 3.x mj_forward / mj_objectVelocity as the reference engine',
                    'scan.tree / scan.link_types: the grouped code is transcribed faithfully and PROVED equal to the recursion/slicing (Layer B stage 2, Props/C01, Props/C02); the transcriptions are tied to the real functions by an exhaustive exact-integer correspondence in the C01 check'],
      assumptions=['IEEE round-off not modelled; theorems over the reals'],
      explanation='Model<->implementation and Spec<->MuJoCo legs of the triangle; theorem Model = Spec in Props/C01.lean',
      extra=dict(link_type_histogram=hist, layer_b_cases=n_b))


def search(ctx, broken, corr):
  fails = []
  # a forest on which scan.tree left its recursion: evaluate the property on models with exactly that topology
  shapes = [d['shape'] for d in corr.get('disagreements', []) if isinstance(d.get('shape'), list)]
  for parents in shapes[:3]:
    # the document order of modelgen is depth-first; only forests already in that order can be requested verbatim
    try:
      _, _, f, _ = run_cases(ctx, 2, 2, gen_opts=dict(parents=parents, stack=(1, 1), roots='world', max_children=99),
                             seed_offset=2000)
      fails += f
    except Exception:
      pass
  if fails:
    return fails
  _, _, fails, _ = run_cases(ctx, ctx.budget(60, 600), 3, seed_offset=1000)
  return fails


def replay(ctx, rp):
  _setup()
  import jax.numpy as jp
  from brax import kinematics
  from brax.io import mjcf
  if rp.get('kind') != 'failing-input':
    return True, f'replay names broken obligations only: {rp.get("broken")}'
  try:
    sysm = mjcf.loads(rp['xml'])
  except Exception as e:
    return False, f'mjcf.loads raises {type(e).__name__}: {e}'
  if rp['key'].startswith('exception'):
    return True, 'model loads'
  q, qd = np.array(rp['q']), np.array(rp['qd'])
  x, xd = kinematics.forward(sysm, jp.asarray(q), jp.asarray(qd))
  mpos, mquat, mvel = mj_reference(sysm, q, qd)
  i = rp['link']
  if rp['key'].startswith('pose'):
    ok = np.allclose(np.asarray(x.pos)[i], mpos[i], atol=1e-8) and quat_close(np.asarray(x.rot)[i], mquat[i], 1e-8)
    return bool(ok), f'link {i}: brax pos {np.asarray(x.pos)[i]} rot {np.asarray(x.rot)[i]} mujoco {mpos[i]} {mquat[i]}'
  got = np.concatenate([np.asarray(xd.ang)[i], np.asarray(xd.vel)[i]])
  ok = np.allclose(got, mvel[i], atol=1e-8)
  return bool(ok), f'link {i}: brax vel {got} mujoco {mvel[i]}'


def reproduce_known(ctx, entry):
  """re-run a listed known finding (velocity of a stacked / offset-anchor link) on the current tree"""
  _setup()
  import jax.numpy as jp
  from brax import kinematics
  from brax.io import mjcf
  sysm = mjcf.loads(entry['xml'])
  q, qd = np.array(entry['q']), np.array(entry['qd'])
  x, xd = kinematics.forward(sysm, jp.asarray(q), jp.asarray(qd))
  _, _, mvel = mj_reference(sysm, q, qd)
  i = entry['link']
  got = np.concatenate([np.asarray(xd.ang)[i], np.asarray(xd.vel)[i]])
  return not np.allclose(got, mvel[i], atol=1e-8)
