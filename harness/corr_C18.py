"""C18 — running observation statistics (brax/training/acme/running_statistics.py).

correspond : per generated history (nested observation structure x partition into batches with
             0-2 leading batch axes x integer weights / weights=None x scales and offsets):
             (a) EXACT: the implementation's own jaxpr of `update` is evaluated over
                 fractions.Fraction (harness/jaxpr_eval.py) batch after batch; the Lean model at
                 `Rat` (`C18.upd R`, one line per batch, same previous state) must give exactly the
                 same count / mean / summed_variance; the whole history is also folded by Lean
                 (`C18.hist R`, model and Spec);
             (b) the real *jitted float64* `update` chain must agree with the rational chain to
                 1e-9 (relative to the natural scale of the quantity);
             (c) FLOAT: Lean model at `Float` (`C18.upd F`) vs the jitted result from the same
                 float state: count / mean / summed_variance / std;
             (d) SPEC on the implementation: final rational state == population statistics of the
                 concatenated data computed independently in Python (Fractions); std in [lo, hi];
             plus std probes (zero-weight batch on crafted states: negative summed_variance, clip
             bounds incl. swapped), normalize / denormalize (exact + float, non-float leaves, max_abs
             clipping), `pmap_axis_name` (through `jax.vmap(axis_name=...)`), `validate_shapes`.
search     : the Spec against the real `update` (numpy/Fraction population statistics),
             split-invariance and weight-as-repetition metamorphic checks, clipping, round trip.
replay     : re-run one recorded case.
"""
from __future__ import annotations

import hashlib
import math
import os
import struct
import sys
import time
from collections import Counter
from fractions import Fraction

import numpy as np

HERE = os.path.dirname(os.path.abspath(__file__))
sys.path.insert(0, HERE)
import check as C  # noqa: E402
import jaxpr_eval as J  # noqa: E402

DRIVER = 'Driver/C18.lean'
LO, HI = 1e-6, 1e6
RTOL = 1e-9


# ----------------------------------------------------------------------------- wire helpers


def f2hex(x):
  return 'x%016x' % struct.unpack('>Q', struct.pack('>d', float(x)))[0]


def hex2f(t):
  return struct.unpack('>d', struct.pack('>Q', int(t[1:], 16)))[0]


def tokF(x):
  """exact token of a python int / float / Fraction"""
  if isinstance(x, Fraction):
    return str(x.numerator) if x.denominator == 1 else f'{x.numerator}/{x.denominator}'
  if isinstance(x, (int, np.integer)):
    return str(int(x))
  return f2hex(x)


def parse_frac(t):
  if t.startswith('x'):
    return Fraction(hex2f(t))
  if '/' in t:
    a, b = t.split('/')
    return Fraction(int(a), int(b))
  return Fraction(int(t))


def parse_float(t):
  if t.startswith('x'):
    return hex2f(t)
  return float(parse_frac(t))


def to_frac(x):
  if isinstance(x, Fraction):
    return x
  if isinstance(x, (int, np.integer)):
    return Fraction(int(x))
  return Fraction(float(x))


# ----------------------------------------------------------------------------- private jaxpr_eval extensions


class _Irr:
  """value that is not rational (sqrt of a non-square): absorbs everything"""
  def _s(self, *_): return self
  __add__ = __radd__ = __sub__ = __rsub__ = __mul__ = __rmul__ = __truediv__ = __rtruediv__ = _s
  __neg__ = _s
  def __repr__(self): return 'IRR'


IRR = _Irr()


class FracIrrDomain(J.FracDomain):
  """FracDomain where irrational results become an absorbing marker instead of raising, so that
  the rational outputs (count, mean, summed_variance) of a jaxpr that also computes std can be
  read.  PRIVATE to C18 (jaxpr_eval.py is shared)."""
  name = 'frac+irr'

  def fn(self, name, *xs):
    if any(x is IRR for x in xs):
      return IRR
    try:
      return super().fn(name, *xs)
    except J.Unsupported:
      return IRR

  def cmp(self, op, a, b):
    if a is IRR or b is IRR:
      return IRR
    return super().cmp(op, a, b)

  def ite(self, c, a, b):
    return IRR if c is IRR else super().ite(c, a, b)

  def band(self, a, b): return IRR if (a is IRR or b is IRR) else super().band(a, b)
  def bor(self, a, b): return IRR if (a is IRR or b is IRR) else super().bor(a, b)
  def bnot(self, a): return IRR if a is IRR else super().bnot(a)


_orig_apply = J._apply


def _apply_with_psum(eqn, ins, dom):
  """`psum` over positional axes (what `jax.vmap(..., axis_name=)` leaves in the jaxpr) is a
  reduce_sum.  PRIVATE to C18: installed only in this process."""
  if eqn.primitive.name == 'psum':
    axes = eqn.params['axes']
    if not all(isinstance(a, (int, np.integer)) for a in axes) or eqn.params.get('axis_index_groups'):
      raise J.Unsupported('psum over a named axis')
    outs = []
    for x in ins:
      if not J._is_dom(x):
        x = J.lift(dom, np.asarray(x))
      outs.append(J._reduce(x, [int(a) for a in axes], lambda u, v: u + v, dom.lit(0)))
    return outs if eqn.primitive.multiple_results else outs[0]
  if eqn.primitive.name == 'reduce_prod' and J._is_dom(ins[0]):
    # `jnp.prod(jnp.array(()))` (no batch axis): the empty tuple becomes an empty *float* array
    return J._reduce(ins[0], list(eqn.params['axes']), lambda u, v: u * v, dom.lit(1))
  return _orig_apply(eqn, ins, dom)


J._apply = _apply_with_psum


# ----------------------------------------------------------------------------- jax / brax access


_RS = None


def rs():
  global _RS
  if _RS is None:
    import jax
    jax.config.update('jax_enable_x64', True)
    from brax.training.acme import running_statistics as m
    _RS = m
  return _RS


# ----------------------------------------------------------------------------- structures


def _leaf(path, shape, dtype='f'):
  return dict(path=list(path), shape=list(shape), dtype=dtype)


def gen_structure(rng):
  """leaves (in tree_leaves order) of a nested observation structure with 1-6 float features"""
  t = int(rng.integers(0, 9))
  f = lambda lo, hi: int(rng.integers(lo, hi + 1))
  if t == 0:
    return 'array', [_leaf([], [f(1, 6)])]
  if t == 1:
    a = f(1, 5)
    return 'dict2', [_leaf(['obs'], [a]), _leaf(['priv'], [f(1, 6 - a)])]
  if t == 2:
    a, b = f(1, 3), f(1, 2)
    return 'nested', [_leaf(['a', 'x'], [a]), _leaf(['a', 'y'], [b]), _leaf(['b'], [1])]
  if t == 3:
    return 'dict+2d', [_leaf(['img'], [2, f(1, 2)]), _leaf(['v'], [f(1, 2)])]
  if t == 4:
    return 'dict+int', [_leaf(['f'], [f(1, 5)]), _leaf(['id'], [f(1, 2)], 'i')]
  if t == 5:
    return 'int-first', [_leaf(['a_id'], [], 'i'), _leaf(['z'], [f(1, 6)])]
  if t == 6:
    return 'scalar-leaf', [_leaf(['s'], []), _leaf(['v'], [f(1, 5)])]
  if t == 7:
    return 'tuple', [_leaf([0], [f(1, 3)]), _leaf([1], [f(1, 3)])]
  return 'array1', [_leaf([], [1])]


def build_nest(leaves, arrays):
  """nest of `arrays` following the leaf paths"""
  if len(leaves) == 1 and not leaves[0]['path']:
    return arrays[0]
  if all(isinstance(l['path'][0], int) for l in leaves):
    return tuple(arrays)
  root = {}
  for l, a in zip(leaves, arrays):
    d = root
    for k in l['path'][:-1]:
      d = d.setdefault(k, {})
    d[l['path'][-1]] = a
  return root


def np_dtype(l):
  return np.float64 if l['dtype'] == 'f' else np.int32


def nfeat(l):
  return int(np.prod(l['shape'])) if l['shape'] else 1


def check_leaf_order(leaves):
  import jax
  nest = build_nest(leaves, list(range(len(leaves))))
  got = jax.tree_util.tree_leaves(nest)
  if got != list(range(len(leaves))):
    raise RuntimeError(f'leaf order of generated structure differs from tree_leaves: {got}')


# ----------------------------------------------------------------------------- history generation


def gen_pool(rng, n1, n2):
  """batch-shape pool of this run (bounds the number of XLA compilations)"""
  pool = [(), (1,), (2,), (1, 1), (1, 3), (2, 1)]
  for _ in range(n1):
    pool.append((int(rng.choice([3, 4, 5, 7, 10, 16, 25, 40, 64, 100, 150, 198])),))
  for _ in range(n2):
    pool.append((int(rng.integers(2, 9)), int(rng.integers(2, 13))))
  return sorted(set(pool), key=lambda d: (len(d), d))


def gen_case(rng, pool, structs):
  kind, leaves = structs[int(rng.integers(len(structs)))]
  F = sum(nfeat(l) for l in leaves)
  # per feature column: scale, offset, kind
  cols = []
  for l in leaves:
    for _ in range(nfeat(l)):
      s = 10.0 ** rng.uniform(-3, 3)
      o = s * rng.uniform(-5, 5) if rng.random() < 0.8 else 0.0
      ck = rng.choice(['normal', 'normal', 'normal', 'const', 'lattice', 'two'])
      cols.append((s, o, str(ck)))
  B = int(rng.integers(1, 9))
  batches, total = [], 0
  for b in range(B):
    dims = pool[int(rng.integers(len(pool)))]
    n = int(np.prod(dims)) if dims else 1
    if total + n > 200:
      small = [d for d in pool if (int(np.prod(d)) if d else 1) + total <= 200]
      if not small:
        break
      dims = small[int(rng.integers(len(small)))]
      n = int(np.prod(dims)) if dims else 1
    total += n
    weighted = rng.random() < 0.75
    w = None
    if weighted:
      mode = rng.choice(['any', 'any', 'ones', 'sparse', 'zero'])
      if mode == 'any':
        w = rng.integers(0, 5, size=n)
      elif mode == 'ones':
        w = np.ones(n, dtype=np.int64)
      elif mode == 'sparse':
        w = rng.integers(0, 5, size=n) * (rng.random(n) < 0.3)
      else:
        w = np.zeros(n, dtype=np.int64)
      if b == 0 and w.sum() == 0:
        w[int(rng.integers(n))] = int(rng.integers(1, 5))
      w = [int(v) for v in w]
    data, c = [], 0
    for l in leaves:
      k = nfeat(l)
      if l['dtype'] == 'i':
        arr = rng.integers(-5, 6, size=(n, k))
        data.append([int(v) for v in arr.reshape(-1)])
      else:
        arr = np.empty((n, k))
        for j in range(k):
          s, o, ck = cols[c + j]
          if ck == 'normal':
            arr[:, j] = o + s * rng.normal(size=n)
          elif ck == 'const':
            arr[:, j] = o if o != 0.0 else s
          elif ck == 'lattice':
            arr[:, j] = o + s * rng.integers(-3, 4, size=n)
          else:
            arr[:, j] = o + s * rng.integers(0, 2, size=n)
        data.append([float(v) for v in arr.reshape(-1)])
      c += k
    batches.append(dict(dims=list(dims), weights=w, data=data,
                        wint=bool(w is not None and rng.random() < 0.12)))
  if total < 2:
    # at least two samples: repeat the (single-sample) batch shape once more
    b0 = batches[0]
    batches.append(dict(dims=b0['dims'], weights=b0['weights'],
                        data=[[(v + 1 if isinstance(v, int) else v * 1.5 + 1.0) for v in d] for d in b0['data']]))
  r = rng.random()
  lo, hi = (LO, HI) if r < 0.7 else ((1e-3, 10.0) if r < 0.8 else ((0.5, 0.5) if r < 0.85 else
                                      (float(10.0 ** rng.uniform(-6, 1)), float(10.0 ** rng.uniform(1, 6)))))
  return dict(kind=kind, leaves=leaves, batches=batches, lo=lo, hi=hi,
              cols=[ck for _, _, ck in cols], F=F)


def batch_arrays(case, b):
  """numpy arrays (one per leaf, shape dims + leaf shape) and weights array or None"""
  dims = tuple(b['dims'])
  arrs = [np.asarray(d, dtype=np_dtype(l)).reshape(dims + tuple(l['shape']))
          for l, d in zip(case['leaves'], b['data'])]
  wdt = np.int32 if b.get('wint') else np.float64
  w = None if b['weights'] is None else np.asarray(b['weights'], dtype=wdt).reshape(dims)
  return arrs, w


def batch_features(case, b):
  """per feature (over all leaves, ravel order): list of N python numbers (row-major batch)"""
  n = int(np.prod(b['dims'])) if b['dims'] else 1
  out = []
  for l, d in zip(case['leaves'], b['data']):
    k = nfeat(l)
    for j in range(k):
      out.append([d[i * k + j] for i in range(n)])
  return out


def batch_weights(b):
  n = int(np.prod(b['dims'])) if b['dims'] else 1
  return b['weights'] if b['weights'] is not None else [1] * n


# ----------------------------------------------------------------------------- running the implementation


class Impl:
  """caches jitted `update` and its jaxpr per (structure, batch dims, weighted)"""

  def __init__(self):
    self.jit, self.jaxpr = {}, {}
    self.compiles = 0

  @staticmethod
  def key(case, b):
    return (repr(case['leaves']), tuple(b['dims']), b['weights'] is not None, bool(b.get('wint')))

  def _fn(self, case, weighted):
    import jax.numpy as jnp
    m = rs()
    leaves = case['leaves']
    L = len(leaves)

    def fn(count, means, svs, stds, arrs, w, lo, hi):
      st = m.RunningStatisticsState(count=count, mean=build_nest(leaves, list(means)),
                                    summed_variance=build_nest(leaves, list(svs)),
                                    std=build_nest(leaves, list(stds)))
      batch = build_nest(leaves, list(arrs))
      kw = dict(std_min_value=lo, std_max_value=hi)
      if weighted:
        kw['weights'] = w
      o = m.update(st, batch, **kw)
      import jax
      tl = jax.tree_util.tree_leaves
      return o.count, tuple(tl(o.mean)), tuple(tl(o.summed_variance)), tuple(tl(o.std))
    return fn

  def real(self, case, b, state, lo, hi):
    """jitted float64 update.  state = (count, [mean leaf arrays], [sv], [std])"""
    import jax
    import jax.numpy as jnp
    k = self.key(case, b)
    if k not in self.jit:
      self.jit[k] = jax.jit(self._fn(case, b['weights'] is not None))
      self.compiles += 1
    arrs, w = batch_arrays(case, b)
    count, means, svs, stds = state
    o = self.jit[k](jnp.asarray(count), tuple(map(jnp.asarray, means)), tuple(map(jnp.asarray, svs)),
                    tuple(map(jnp.asarray, stds)), tuple(map(jnp.asarray, arrs)),
                    None if w is None else jnp.asarray(w), jnp.float64(lo), jnp.float64(hi))
    return (np.asarray(o[0]), [np.asarray(x) for x in o[1]], [np.asarray(x) for x in o[2]],
            [np.asarray(x) for x in o[3]])

  def exact(self, case, b, fstate):
    """the implementation's jaxpr over Fractions.  fstate = (count, [mean obj arrays], [sv obj arrays])"""
    import jax
    import jax.numpy as jnp
    k = self.key(case, b)
    arrs, w = batch_arrays(case, b)
    leaves = case['leaves']
    if k not in self.jaxpr:
      ex_state = (jnp.zeros(()), tuple(jnp.zeros(l['shape']) for l in leaves),
                  tuple(jnp.zeros(l['shape']) for l in leaves), tuple(jnp.ones(l['shape']) for l in leaves))
      fn = self._fn(case, w is not None)
      self.jaxpr[k] = jax.make_jaxpr(lambda c, m_, s_, d_, a_, w_: fn(c, m_, s_, d_, a_, w_, LO, HI))(
          *ex_state, tuple(map(jnp.asarray, arrs)), None if w is None else jnp.asarray(w))
    closed = self.jaxpr[k]
    count, means, svs = fstate
    dom = FracIrrDomain()
    flat = [J._obj(count)] + list(means) + list(svs)
    flat += [J.lift(dom, np.ones(l['shape'])) for l in leaves]
    for l, a in zip(leaves, arrs):
      flat.append(J.lift(dom, a) if l['dtype'] == 'f' else a)
    if w is not None:
      flat.append(J.lift(dom, w) if w.dtype == np.float64 else w)
    outs = J.eval_jaxpr(closed, flat, dom)
    L = len(leaves)
    cnt = outs[0][()] if isinstance(outs[0], np.ndarray) else outs[0]
    return cnt, [np.asarray(x, dtype=object) for x in outs[1:1 + L]], \
        [np.asarray(x, dtype=object) for x in outs[1 + L:1 + 2 * L]]


def init_states(case):
  import jax
  m = rs()
  leaves = case['leaves']
  ref = build_nest(leaves, [np.zeros(l['shape'], dtype=np_dtype(l)) for l in leaves])
  st = m.init_state(ref)
  tl = jax.tree_util.tree_leaves
  real = (np.asarray(st.count), [np.asarray(x) for x in tl(st.mean)],
          [np.asarray(x) for x in tl(st.summed_variance)], [np.asarray(x) for x in tl(st.std)])
  if any(x.dtype != np.float64 for x in real[1] + real[2] + real[3]) or real[0].dtype != np.float64:
    raise RuntimeError('init_state is not float64 under x64')
  dom = J.FracDomain()
  fr = (Fraction(float(real[0])), [J.lift(dom, x) for x in real[1]], [J.lift(dom, x) for x in real[2]])
  return real, fr


def flat_state_frac(fstate):
  count, means, svs = fstate
  ms = [v for a in means for v in np.asarray(a, dtype=object).reshape(-1)]
  vs = [v for a in svs for v in np.asarray(a, dtype=object).reshape(-1)]
  return count, ms, vs


def flat_state_real(state):
  count, means, svs, stds = state
  cat = lambda xs: [float(v) for a in xs for v in np.asarray(a).reshape(-1)]
  return float(count), cat(means), cat(svs), cat(stds)


# ----------------------------------------------------------------------------- python spec (independent of the model)


def spec_stats(ws, xs):
  """population statistics of weighted data, exact"""
  W = sum((to_frac(w) for w in ws), Fraction(0))
  S1 = sum((to_frac(w) * to_frac(x) for w, x in zip(ws, xs)), Fraction(0))
  mean = S1 / W
  sv = sum((to_frac(w) * (to_frac(x) - mean) ** 2 for w, x in zip(ws, xs)), Fraction(0))
  return W, mean, sv


def spec_case(case, upto=None):
  """per feature (W, mean, sv) over the first `upto` batches + scale info"""
  bs = case['batches'][:upto]
  ws = [w for b in bs for w in batch_weights(b)]
  feats = None
  for b in bs:
    fb = batch_features(case, b)
    if feats is None:
      feats = [list(f) for f in fb]
    else:
      for f, g in zip(feats, fb):
        f.extend(g)
  out = []
  for xs in feats:
    W, mean, sv = spec_stats(ws, xs)
    s2 = sum(float(w) * float(x) ** 2 for w, x in zip(ws, xs))
    xmax = max(abs(float(x)) for x in xs)
    out.append(dict(W=W, mean=mean, sv=sv, s2=s2, xmax=xmax))
  return out


def close(a, b, scale):
  a, b = float(a), float(b)
  if not (math.isfinite(a) and math.isfinite(b)):
    return False
  return abs(a - b) <= RTOL * (abs(b) + scale) + 1e-300


def std_expected(sv, W, lo, hi):
  raw = math.sqrt(max(float(sv), 0.0) / float(W))
  return min(hi, max(lo, raw))


# ----------------------------------------------------------------------------- lean lines


def upd_line(mode, case, b, count, ms, vs, lo, hi):
  dims = b['dims']
  t = ['C18.upd', mode, tokF(to_frac(lo) if mode == 'R' else lo), tokF(to_frac(hi) if mode == 'R' else hi),
       '1' if b['weights'] is not None else '0', str(len(dims))] + [str(d) for d in dims]
  t += [str(len(ms)), tokF(count)]
  for m_, v_ in zip(ms, vs):
    t += [tokF(m_), tokF(v_)]
  if b['weights'] is not None:
    t += [str(w) for w in b['weights']]
  for f in batch_features(case, b):
    t += [tokF(x) for x in f]
  return ' '.join(t)


def hist_line(mode, case, lo, hi):
  bs = case['batches']
  t = ['C18.hist', mode, tokF(to_frac(lo) if mode == 'R' else lo), tokF(to_frac(hi) if mode == 'R' else hi),
       str(case['F']), str(len(bs))]
  for b in bs:
    ws = batch_weights(b)
    t += [str(len(ws))] + [str(w) for w in ws]
    for f in batch_features(case, b):
      t += [tokF(x) for x in f]
  return ' '.join(t)


# ----------------------------------------------------------------------------- one history: implementation side


def run_history(impl, case, exact=True):
  """returns dict(real=[state after each batch], frac=[...], lines, expect)"""
  real0, fr0 = init_states(case)
  reals, fracs = [real0], [fr0]
  for b in case['batches']:
    reals.append(impl.real(case, b, reals[-1], case['lo'], case['hi']))
    if exact:
      fracs.append(impl.exact(case, b, fracs[-1]))
  return reals, fracs


def check_history_spec(case, reals, fracs):
  """SPEC on the implementation.  returns list of failure strings (empty = fine)"""
  fails = []
  lo, hi = case['lo'], case['hi']
  for upto in sorted({1, len(case['batches'])}):
    sp = spec_case(case, upto)
    cnt, ms, vs, sds = flat_state_real(reals[upto])
    if fracs is not None and len(fracs) > upto:
      fc, fm, fv = flat_state_frac(fracs[upto])
    else:
      fc = fm = fv = None
    for j, s in enumerate(sp):
      tag = f'after {upto} batch(es), feature {j}'
      if fc is not None:
        if fc is IRR or fm[j] is IRR or fv[j] is IRR:
          fails.append(f'{tag}: implementation result is not rational')
          continue
        if fc != s['W']:
          fails.append(f'{tag}: exact count {fc} != sum of weights {s["W"]}')
        if fm[j] != s['mean']:
          fails.append(f'{tag}: exact mean {float(fm[j])!r} != population mean {float(s["mean"])!r}')
        if fv[j] != s['sv']:
          fails.append(f'{tag}: exact summed_variance {float(fv[j])!r} != sum w (x-mean)^2 = {float(s["sv"])!r}')
      if not close(cnt, s['W'], 0.0):
        fails.append(f'{tag}: count {cnt!r} != sum of weights {float(s["W"])!r}')
      if not close(ms[j], s['mean'], s['xmax']):
        fails.append(f'{tag}: mean {ms[j]!r} != population mean {float(s["mean"])!r}')
      if not close(vs[j], s['sv'], s['s2']):
        fails.append(f'{tag}: summed_variance {vs[j]!r} != sum w (x-mean)^2 = {float(s["sv"])!r}')
      if lo <= hi and not (lo <= sds[j] <= hi):
        fails.append(f'{tag}: std {sds[j]!r} outside [{lo}, {hi}]')
      # running std = clipped population std (loose where the variance is pure round-off)
      exp = std_expected(s['sv'], s['W'], lo, hi)
      degenerate = float(s['sv']) <= 1e-6 * s['s2']
      tol = 1e-9 * (1 + abs(exp)) + (math.sqrt(1e-12 * s['s2'] / float(s['W'])) if degenerate else 0.0)
      if lo <= hi and not abs(sds[j] - exp) <= tol:
        fails.append(f'{tag}: std {sds[j]!r} != clip(sqrt(population variance)) = {exp!r}')
    if fails:
      break
  return fails


# ----------------------------------------------------------------------------- correspondence


def correspond(ctx):
  import jax
  rs()
  rng = np.random.default_rng(ctx.seed)
  ok_drv, log = C.lake_build(['Brax.Model.C18.Driver'], os.path.join(ctx.work, 'drv.log'))
  if not ok_drv:
    return dict(evaluations=0, distinct_nontrivial=0, rule='', samples=[],
                disagreements=[dict(what='C18 driver does not compile', log=log[-1500:])],
                spec_failures=[], trusted_base=[], assumptions=[], explanation='', extra={})
  impl = Impl()
  n_hist = ctx.budget(200, 2000)
  pool = gen_pool(rng, *ctx.budget((4, 2), (12, 8)))
  structs = []
  while len(structs) < ctx.budget(6, 14):
    s = gen_structure(rng)
    if s not in structs:
      check_leaf_order(s[1]); structs.append(s)
  lines, checks = [], []          # checks[i] : (kind, payload) for output line i
  disagreements, spec_failures = [], []
  hist = Counter()
  distinct = set()
  samples = []
  t0 = time.time()

  # ---- histories ------------------------------------------------------------------------
  for h in range(n_hist):
    case = TINY[h] if h < len(TINY) else gen_case(rng, pool, structs)
    try:
      reals, fracs = run_history(impl, case, exact=True)
    except ZeroDivisionError:
      # the implementation's own jaxpr divides by zero on a history inside the quantifier (first batch weight > 0):
      # in float arithmetic that is a NaN/inf statistic — the population statistics are well defined there
      spec_failures.append(dict(key='C18:division_by_zero', what='update divides by zero on a valid history (a later '
                                'batch of total weight 0?): statistics become non-finite', case=case,
                                failures=['ZeroDivisionError in the exact evaluation of the implementation']))
      continue
    key = hashlib.sha1(repr((case['leaves'], case['batches'])).encode()).hexdigest()
    N = sum(len(batch_weights(b)) for b in case['batches'])
    if N >= 2:
      distinct.add(key)
    hist['struct:' + case['kind']] += 1
    hist[f'F:{case["F"]}'] += 1
    hist[f'B:{len(case["batches"])}'] += 1
    hist['N:' + ('2-9' if N < 10 else '10-49' if N < 50 else '50-200')] += 1
    for ck in case['cols']:
      hist['col:' + ck] += 1
    if len(samples) < 3:
      samples.append(dict(structure=case['kind'], features=case['F'], samples=N,
                          batch_dims=[b['dims'] for b in case['batches']],
                          weighted=[b['weights'] is not None for b in case['batches']],
                          final_count=float(reals[-1][0])))
    # (d) spec on the implementation
    fails = check_history_spec(case, reals, fracs)
    if fails:
      spec_failures.append(dict(key='C18:closed_form', what='update: ' + fails[0], case=case,
                                failures=fails[:6]))
    # (b) float chain vs rational chain
    for i in range(1, len(reals)):
      sp = spec_case(case, i)
      cnt, ms, vs, _ = flat_state_real(reals[i])
      fc, fm, fv = flat_state_frac(fracs[i])
      bad = None
      if fc is IRR or any(v is IRR for v in fm + fv):
        bad = 'rational evaluation of the jaxpr met an irrational value in count/mean/summed_variance'
      elif not close(cnt, fc, 0.0):
        bad = f'count {cnt} vs {float(fc)}'
      else:
        for j, s in enumerate(sp):
          if not close(ms[j], fm[j], s['xmax']) or not close(vs[j], fv[j], s['s2']):
            bad = f'feature {j}: float64 ({ms[j]!r}, {vs[j]!r}) vs rational ({float(fm[j])!r}, {float(fv[j])!r})'
            break
      if bad:
        disagreements.append(dict(what='jitted float64 update differs from its own jaxpr over Fraction: ' + bad,
                                  case=case, batch=i - 1))
        break
    # (a) + (c) lean lines, one per batch
    for i, b in enumerate(case['batches']):
      nd = len(b['dims'])
      hist[f'axes:{nd}'] += 1
      hist['weighted' if b['weights'] is not None else 'weights=None'] += 1
      if b.get('wint'):
        hist['weights dtype int32'] += 1
      if b['weights'] is not None and sum(b['weights']) == 0:
        hist['zero-weight batch'] += 1
      fc, fm, fv = flat_state_frac(fracs[i])
      if not (fc is IRR or any(v is IRR for v in fm + fv)):
        lines.append(upd_line('R', case, b, fc, fm, fv, case['lo'], case['hi']))
        checks.append(('updR', (case, i, fracs[i + 1])))
      if ctx.tier != 'thorough' or h % 2 == 0:     # float mode on every other history in thorough (Lean time)
        cnt, ms, vs, _ = flat_state_real(reals[i])
        lines.append(upd_line('F', case, b, cnt, ms, vs, case['lo'], case['hi']))
        checks.append(('updF', (case, i, reals[i], reals[i + 1], fracs[i + 1])))
    lines.append(hist_line('R', case, case['lo'], case['hi']))
    checks.append(('histR', (case, fracs[-1])))
    if h % 3 == 0:
      lines.append(hist_line('F', case, case['lo'], case['hi']))
      checks.append(('histF', (case, reals[-1])))
  t_hist = time.time() - t0

  # ---- std probes, normalize, pmap, validate ------------------------------------------------
  probe_cases = gen_std_probes(rng, impl, ctx.budget(60, 400), lines, checks, hist)
  norm_fail = gen_normalize(rng, ctx.budget(80, 600), lines, checks, hist, spec_failures)
  gen_pmap(rng, ctx.budget(8, 40), lines, checks, hist, disagreements, spec_failures)
  gen_validate(rng, ctx.budget(40, 200), lines, checks, hist, disagreements)

  # ---- run lean --------------------------------------------------------------------------------
  t1 = time.time()
  out = C.run_driver(DRIVER, lines)
  t_lean = time.time() - t1
  if len(out) != len(lines):
    raise RuntimeError(f'driver returned {len(out)} lines for {len(lines)} cases')
  for o, (kind, payload), line in zip(out, checks, lines):
    d = compare_line(kind, payload, o, hist)
    if d:
      d.setdefault('line', line[:400])
      disagreements.append(d)
  # keep the reports small
  disagreements = disagreements[:8]
  spec_failures = _dedupe(spec_failures)[:3]
  return dict(
      evaluations=len(lines), distinct_nontrivial=len(distinct),
      rule='distinct = distinct histories (hash of structure + all batch data and weights) with >= 2 samples and '
           'positive first-batch weight; evaluations = Lean driver lines (one per batch update at Rat, one at Float, '
           'two per history, plus std / normalize / pmap / validate probes)',
      samples=samples, disagreements=disagreements, spec_failures=spec_failures,
      trusted_base=['harness/jaxpr_eval.py evaluates the jaxpr of `update` over fractions.Fraction (self-checked on '
                    'every case against the jitted float64 call, 1e-9); corr_C18 adds an absorbing marker for '
                    'irrational sqrt results (std is compared in float mode only) and psum-over-positional-axes',
                    'jax.make_jaxpr / jax.jit / jax.vmap(axis_name) are faithful to the traced Python',
                    'correspondence on sampled histories only; the theorems carry the quantifier'],
      assumptions=['theorems are over exact fields (Q, R): IEEE round-off, overflow and NaN are not modelled',
                   'every running count is non-zero (first batch total weight > 0, weights >= 0): otherwise the code '
                   'divides 0/0 (NaN) while a Lean field gives 0',
                   'validate_shapes=True (default); with validate_shapes=False silent broadcasting is not modelled',
                   'float tolerance is 1e-9 relative to the natural scale of each quantity (|x|max for means, '
                   'sum w x^2 for summed_variance); where the population variance is below 1e-6 of sum w x^2 '
                   '(constant columns) std is pure round-off and is only checked loosely'],
      explanation='Tie B: hand model vs implementation; exact-rational mode for count/mean/summed_variance (the '
                  'implementation is its own jaxpr over Fraction), float mode for std/normalize/denormalize.',
      extra=dict(histories=n_hist, xla_compilations=impl.compiles, batch_shape_pool=[list(p) for p in pool],
                 structures=[k for k, _ in structs], distribution=dict(sorted(hist.items())),
                 skipped_near_branch=0, seconds_histories=round(t_hist, 1),
                 seconds_lean_driver=round(t_lean, 1)))


def _dedupe(fs):
  seen, out = set(), []
  # smallest case first, one per clause
  size = lambda f: (sum(len(batch_weights(b)) for b in f['case']['batches']) * f['case']['F']
                    if 'case' in f and 'batches' in f.get('case', {}) else 0)
  for f in sorted(fs, key=size):
    k = f.get('key')
    if k not in seen:
      seen.add(k); out.append(f)
  return out


def compare_line(kind, payload, o, hist):
  if o.startswith('bad'):
    return dict(what=f'{kind}: driver rejected the line: {o}')
  if kind == 'updR':
    case, i, nxt = payload
    got = [parse_frac(t) for t in o.split()]
    fc, fm, fv = flat_state_frac(nxt)
    exp = [v for m_, v_ in zip(fm, fv) for v in (fc, m_, v_)]
    if got != exp:
      j = next(k for k, (a, b) in enumerate(zip(got, exp)) if a != b) if len(got) == len(exp) else -1
      return dict(what=f'model(Rat) != implementation(jaxpr over Fraction) in update, batch {i}, output #{j} '
                       f'(per feature: count, mean, summed_variance)',
                  lean=[float(x) for x in got[:9]], real=[float(x) if x is not IRR else None for x in exp[:9]], case=case)
    return None
  if kind == 'updF':
    case, i, prev, nxt, fnxt = payload
    got = [parse_float(t) for t in o.split()]
    cnt, ms, vs, sds = flat_state_real(nxt)
    pc, pm, pv, _ = flat_state_real(prev)
    b = case['batches'][i]
    feats = batch_features(case, b)
    ws = batch_weights(b)
    if len(got) != 4 * len(ms):
      return dict(what=f'updF: {len(got)} outputs for {len(ms)} features')
    _, _, fv = flat_state_frac(fnxt)
    lo, hi = case['lo'], case['hi']
    for j in range(len(ms)):
      c_, m_, v_, s_ = got[4 * j:4 * j + 4]
      xmax = max(max(abs(float(x)) for x in feats[j]), abs(pm[j]))
      s2 = sum(float(w) * (abs(float(x)) + abs(pm[j])) ** 2 for w, x in zip(ws, feats[j])) + abs(pv[j])
      bad = None
      if not close(c_, cnt, 0.0): bad = f'count {c_!r} vs {cnt!r}'
      elif not close(m_, ms[j], xmax): bad = f'mean {m_!r} vs {ms[j]!r}'
      elif not close(v_, vs[j], s2): bad = f'summed_variance {v_!r} vs {vs[j]!r}'
      else:
        degenerate = fv[j] is IRR or float(fv[j]) <= 1e-6 * s2
        hist['std:degenerate(round-off only)' if degenerate else 'std:regular'] += 1
        hist['std-branch:' + ('lo' if sds[j] <= min(lo, hi) else 'hi' if sds[j] >= hi else 'inside')] += 1
        tol = 1e-9 * (1 + abs(sds[j])) + (math.sqrt(1e-12 * s2 / max(cnt, 1e-300)) if degenerate else 0.0)
        if not (math.isfinite(s_) and abs(s_ - sds[j]) <= tol):
          bad = f'std {s_!r} vs {sds[j]!r}'
      if bad:
        return dict(what=f'model(Float) != jitted update, batch {i}, feature {j}: {bad}', case=case)
    return None
  if kind == 'histR':
    case, fl = payload
    a, b = o.split('|')
    model = [parse_frac(t) for t in a.split()]
    spec = [parse_frac(t) for t in b.split()]
    fc, fm, fv = flat_state_frac(fl)
    if fc is IRR or any(v is IRR for v in fm + fv):
      return None
    exp = [v for m_, v_ in zip(fm, fv) for v in (fc, m_, v_)]
    if model != exp:
      return dict(what='model(Rat) folded over the history != implementation(jaxpr over Fraction)', case=case,
                  lean=[float(x) for x in model[:9]], real=[float(x) for x in exp[:9]])
    py = [v for s in spec_case(case) for v in (s['W'], s['mean'], s['sv'])]
    if spec != py:
      raise RuntimeError('Lean Spec and Python spec differ (harness bug)')
    if model != spec:
      # cannot happen while update_closed_form holds; reported as model/spec split
      return dict(what='Lean model != Lean Spec on a history (contradicts update_closed_form?)', case=case)
    return None
  if kind == 'histF':
    case, fl = payload
    a, _ = o.split('|')
    got = [parse_float(t) for t in a.split()]
    cnt, ms, vs, sds = flat_state_real(fl)
    sp = spec_case(case)
    for j, s in enumerate(sp):
      c_, m_, v_, s_ = got[4 * j:4 * j + 4]
      if not (close(c_, cnt, 0.0) and close(m_, ms[j], s['xmax']) and close(v_, vs[j], s['s2'])):
        return dict(what=f'model(Float) folded over the history != jitted chain, feature {j}: '
                         f'({c_!r},{m_!r},{v_!r}) vs ({cnt!r},{ms[j]!r},{vs[j]!r})', case=case)
    return None
  if kind == 'probe':
    exp, what = payload
    got = [parse_float(t) for t in o.split()]
    if len(got) != len(exp) or any(not (abs(g - e) <= 1e-12 * (1 + abs(e))) for g, e in zip(got, exp)):
      return dict(what=f'std probe: model(Float) {got} != implementation {exp} ({what})')
    return None
  if kind == 'norm':
    exp, exact, what = payload
    t = o.split()
    if t[0] != exp[0]:
      return dict(what=f'{what}: leaf kind {t[0]} vs {exp[0]}')
    if exp[0] == 'i':
      ok = int(t[1]) == exp[1]
    elif exact:
      ok = parse_frac(t[1]) == exp[1]
    else:
      ok = abs(parse_float(t[1]) - exp[1]) <= 1e-12 * (1 + abs(exp[1]))
    if not ok:
      return dict(what=f'{what}: model {t[1]} vs implementation {exp[1]!r}')
    return None
  if kind == 'pmapR':
    exp, what = payload
    got = [parse_frac(t) for t in o.split()]
    if got != exp:
      return dict(what=f'pmap: model(Rat) != implementation(jaxpr over Fraction) ({what})',
                  lean=[float(x) for x in got[:9]], real=[float(x) for x in exp[:9]])
    return None
  if kind == 'validate':
    exp, what = payload
    if o != exp:
      return dict(what=f'validate_shapes: model says {o}, implementation {exp} ({what})')
    return None
  raise RuntimeError(f'unknown check kind {kind}')


# ----------------------------------------------------------------------------- std probes


def gen_std_probes(rng, impl, n, lines, checks, hist):
  """a zero-weight batch leaves count/mean/sv unchanged, so std = clip(sqrt(max(sv,0)/count), lo, hi)
  of the *given* state: probes negative sv, the clip bounds (also swapped) bit-exactly"""
  case = dict(kind='probe', leaves=[_leaf([], [3])], F=3, lo=LO, hi=HI, batches=[], cols=[])
  for _ in range(n):
    count = float(rng.choice([1.0, 2.0, 7.0, 100.0, 12345.0]))
    sv = [float(rng.choice([-1.0, -1e-12, 0.0, 1e-14, 1e-3, 1.0, 37.5, 1e9, 1e15])) * float(rng.uniform(0.5, 2))
          for _ in range(3)]
    mean = [float(rng.normal()) for _ in range(3)]
    r = rng.random()
    if r < 0.4: lo, hi = LO, HI
    elif r < 0.8: lo, hi = float(10.0 ** rng.uniform(-6, 2)), float(10.0 ** rng.uniform(-2, 6))   # may be swapped
    else: lo = hi = float(10.0 ** rng.uniform(-3, 3))
    b = dict(dims=[2], weights=[0, 0], data=[[float(v) for v in rng.normal(size=6)]])
    state = (np.float64(count), [np.asarray(mean)], [np.asarray(sv)], [np.ones(3)])
    o = impl.real(case, b, state, lo, hi)
    cnt, ms, vs, sds = flat_state_real(o)
    exp = [v for j in range(3) for v in (cnt, ms[j], vs[j], sds[j])]
    lines.append(upd_line('F', case, b, count, mean, sv, lo, hi))
    checks.append(('probe', (exp, f'count={count} sv={sv} lo={lo} hi={hi}')))
    hist['probe:' + ('swapped' if lo > hi else 'lo=hi' if lo == hi else 'lo<hi')] += 1
    if any(v < 0 for v in sv):
      hist['probe:negative sv'] += 1
  return n


# ----------------------------------------------------------------------------- normalize / denormalize


def gen_normalize(rng, n, lines, checks, hist, spec_failures):
  import jax
  import jax.numpy as jnp
  m = rs()
  for k in range(n):
    sc = 10.0 ** rng.uniform(-3, 3)
    mu = float(sc * rng.uniform(-5, 5))
    sd = float(sc * 10.0 ** rng.uniform(-2, 1))
    use_max = rng.random() < 0.5
    mx = float(rng.choice([0.5, 1.0, 5.0, 10.0])) if use_max else None
    xf = float(mu + sd * rng.normal() * (4 if rng.random() < 0.3 else 1))
    xi = int(rng.integers(-50, 50))
    batch = {'f': jnp.asarray([xf, mu]), 'i': jnp.asarray([xi, 0], dtype=jnp.int32)}
    ms = m.NestedMeanStd(mean={'f': jnp.asarray([mu, mu]), 'i': jnp.asarray([mu, mu])},
                         std={'f': jnp.asarray([sd, sd]), 'i': jnp.asarray([sd, sd])})
    nz = m.normalize(batch, ms, max_abs_value=mx)
    dz = m.denormalize(batch, ms)
    rt = m.denormalize(m.normalize(batch, ms), ms)
    # spec on the implementation: non-float untouched (value and dtype), round trip, bound
    case = dict(x=xf, xi=xi, mean=mu, std=sd, max_abs=mx)
    if nz['i'].dtype != jnp.int32 or dz['i'].dtype != jnp.int32 or int(nz['i'][0]) != xi or int(dz['i'][0]) != xi:
      spec_failures.append(dict(key='C18:non_float_untouched', what='normalize/denormalize changed a non-float leaf',
                                norm_case=case))
    if not abs(float(rt['f'][0]) - xf) <= 1e-9 * (abs(xf) + abs(mu) + sd):
      spec_failures.append(dict(key='C18:normalize_denormalize', norm_case=case,
                                what=f'denormalize(normalize(x)) = {float(rt["f"][0])!r} != x = {xf!r}'))
    if mx is not None and not abs(float(nz['f'][0])) <= mx:
      spec_failures.append(dict(key='C18:normalize_bounded', norm_case=case,
                                what=f'|normalize(x, max_abs_value={mx})| = {float(nz["f"][0])!r} > {mx}'))
    hist['normalize:' + ('clipped' if mx is not None and abs((xf - mu) / sd) > mx else 'unclipped')] += 1
    # model vs implementation: float, and exact through the jaxpr
    mt = ['1', tokF(mx)] if mx is not None else ['0', '0']
    lines.append(' '.join(['C18.norm', 'F'] + mt + ['f', tokF(xf), tokF(mu), tokF(sd)]))
    checks.append(('norm', (('f', float(nz['f'][0])), False, 'normalize float')))
    lines.append(' '.join(['C18.norm', 'F'] + mt + ['i', str(xi), tokF(mu), tokF(sd)]))
    checks.append(('norm', (('i', int(nz['i'][0])), False, 'normalize int leaf')))
    lines.append(' '.join(['C18.denorm', 'F', 'f', tokF(xf), tokF(mu), tokF(sd)]))
    checks.append(('norm', (('f', float(dz['f'][0])), False, 'denormalize float')))
    lines.append(' '.join(['C18.denorm', 'F', 'i', str(xi), tokF(mu), tokF(sd)]))
    checks.append(('norm', (('i', int(dz['i'][0])), False, 'denormalize int leaf')))
    if k % 4 == 0:
      dom = J.FracDomain()
      jn = jax.make_jaxpr(lambda b, a, s: m.normalize(b, m.NestedMeanStd(mean=a, std=s), max_abs_value=mx)['f'])(
          batch, ms.mean, ms.std)
      args = [J.lift(dom, np.asarray([xf, mu])), np.asarray([xi, 0], dtype=np.int32)]
      args += [J.lift(dom, np.asarray([mu, mu]))] * 2 + [J.lift(dom, np.asarray([sd, sd]))] * 2
      en = J.eval_jaxpr(jn, args, dom)[0][0]
      # literal max_abs is read as a decimal on both sides
      mtR = ['1', tokF(J._to_fraction(mx))] if mx is not None else ['0', '0']
      lines.append(' '.join(['C18.norm', 'R'] + mtR + ['f', tokF(xf), tokF(mu), tokF(sd)]))
      checks.append(('norm', (('f', en), True, 'normalize exact')))
      jd = jax.make_jaxpr(lambda b, a, s: m.denormalize(b, m.NestedMeanStd(mean=a, std=s))['f'])(batch, ms.mean, ms.std)
      ed = J.eval_jaxpr(jd, args, dom)[0][0]
      lines.append(' '.join(['C18.denorm', 'R', 'f', tokF(xf), tokF(mu), tokF(sd)]))
      checks.append(('norm', (('f', ed), True, 'denormalize exact')))
  return None


# ----------------------------------------------------------------------------- pmap (through vmap with an axis name)


def _pmap_fn(m):
  import jax
  import jax.numpy as jnp

  def f(c, mu, sv, b, w_):
    s0 = m.RunningStatisticsState(count=c, mean=mu, summed_variance=sv, std=jnp.ones_like(mu))
    o = m.update(s0, b, weights=w_, pmap_axis_name='i')
    return o.count, o.mean, o.summed_variance
  return lambda c, mu, sv, b, w_: jax.vmap(lambda b1, w1: f(c, mu, sv, b1, w1), axis_name='i')(b, w_)


def pmap_spec(m, x, w, st):
  """spec on the implementation: all devices agree, and agree with the update on the concatenation"""
  import jax.numpy as jnp
  D, nloc, F = x.shape
  out = _pmap_fn(m)(st.count, st.mean, st.summed_variance, jnp.asarray(x), jnp.asarray(w))
  cnt, mean, sv = [np.asarray(o) for o in out]
  pc = dict(x=x.tolist(), w=w.tolist(), count0=float(st.count), mean0=np.asarray(st.mean).tolist(),
            sv0=np.asarray(st.summed_variance).tolist())
  fails = []
  if not (np.all(cnt == cnt[0]) and np.all(mean == mean[0]) and np.all(sv == sv[0])):
    fails.append(dict(key='C18:pmap_replicas', what='pmapped update: devices end in different states', pmap_case=pc))
  flat = m.update(st, jnp.asarray(x.reshape(D * nloc, F)), weights=jnp.asarray(w.reshape(-1)))
  s2 = float(np.sum(w[..., None] * x * x)) + float(np.max(np.abs(np.asarray(st.summed_variance)))) + 1e-300
  if not (np.allclose(cnt[0], flat.count, rtol=1e-12) and
          np.allclose(mean[0], flat.mean, rtol=1e-9, atol=1e-9 * float(np.max(np.abs(x)))) and
          np.allclose(sv[0], flat.summed_variance, rtol=1e-9, atol=1e-9 * s2)):
    fails.append(dict(key='C18:pmap_eq_flatten', pmap_case=pc,
                      what=f'pmapped update (mean {mean[0].tolist()}) differs from the update on the concatenated '
                           f'shards (mean {np.asarray(flat.mean).tolist()})'))
  return fails


def gen_pmap(rng, n, lines, checks, hist, disagreements, spec_failures):
  import jax
  import jax.numpy as jnp
  m = rs()
  shapes = [(2, 3, 2), (3, 4, 1), (4, 2, 3)]
  cache = {}
  for k in range(n):
    D, nloc, F = shapes[k % len(shapes)]
    x = np.round(rng.normal(size=(D, nloc, F)) * 10.0 ** rng.integers(-2, 3), 6)
    w = rng.integers(0, 5, size=(D, nloc)).astype(np.float64)
    w[0, 0] = max(w[0, 0], 1.0)
    # previous state = statistics of some earlier data (or the initial state)
    if rng.random() < 0.3:
      st = m.init_state(jnp.zeros((F,)))
    else:
      x0 = np.round(rng.normal(size=(5, F)), 3)
      st = m.update(m.init_state(jnp.zeros((F,))), jnp.asarray(x0))
    vf = _pmap_fn(m)
    sf = pmap_spec(m, x, w, st)
    spec_failures += sf
    key = (D, nloc, F)
    if key not in cache:
      cache[key] = jax.make_jaxpr(vf)(st.count, st.mean, st.summed_variance, jnp.asarray(x), jnp.asarray(w))
    dom = FracIrrDomain()
    c0, m0, v0 = Fraction(float(st.count)), [Fraction(float(v)) for v in np.asarray(st.mean)], \
        [Fraction(float(v)) for v in np.asarray(st.summed_variance)]
    args = [J._obj(c0), np.asarray(m0, dtype=object), np.asarray(v0, dtype=object), J.lift(dom, x), J.lift(dom, w)]
    eo = J.eval_jaxpr(cache[key], args, dom)
    ec, em, ev = eo[0][0], eo[1][0], eo[2][0]
    exp = [v for j in range(F) for v in (ec, em[j], ev[j])]
    t = ['C18.pmap', 'R', '0', '1', str(F), str(D), str(nloc), tokF(c0)]
    for a, b in zip(m0, v0):
      t += [tokF(a), tokF(b)]
    for d in range(D):
      t += [str(int(v)) for v in w[d]]
      for j in range(F):
        t += [tokF(float(v)) for v in x[d, :, j]]
    lines.append(' '.join(t))
    checks.append(('pmapR', (exp, f'D={D} n={nloc} F={F}')))
    hist['pmap'] += 1


# ----------------------------------------------------------------------------- validate_shapes


def gen_shape_case(rng):
  feat = [[int(rng.integers(1, 4))], ([] if rng.random() < 0.3 else [int(rng.integers(1, 3))])]
  if rng.random() < 0.3:
    feat[0] = [2, int(rng.integers(1, 3))]
  dims = [int(rng.integers(1, 4)) for _ in range(int(rng.integers(0, 3)))]
  leaves = [dims + feat[0], dims + feat[1]]
  wshape = list(dims) if rng.random() < 0.7 else None
  mut = rng.choice(['none', 'none', 'w-extra', 'w-size', 'leaf-batch', 'leaf-feat', 'leaf-rank', 'w-one'])
  if mut == 'w-extra' and wshape is not None: wshape = wshape + [1]
  elif mut == 'w-size' and wshape: wshape = [wshape[0] + 1] + wshape[1:]
  elif mut == 'w-one' and wshape: wshape = [1] * len(wshape)
  elif mut == 'leaf-batch' and dims: leaves[1] = [dims[0] + 1] + leaves[1][1:]
  elif mut == 'leaf-feat' and feat[1]: leaves[1] = dims + [feat[1][0] + 1]
  elif mut == 'leaf-rank': leaves[1] = leaves[1] + [1]
  return dict(weights=wshape, leaves=leaves, means=feat)


def run_shape_case(m, sc):
  import jax.numpy as jnp
  st = m.init_state({'a': jnp.zeros(sc['means'][0]), 'b': jnp.zeros(sc['means'][1])})
  batch = {'a': jnp.ones(sc['leaves'][0]), 'b': jnp.ones(sc['leaves'][1])}
  try:
    m.update(st, batch, weights=None if sc['weights'] is None else jnp.ones(sc['weights']))
    return 'ok'
  except (ValueError, AssertionError, TypeError):
    return 'err'


def validate_spec(m, sc):
  """documented contract (docstrings of update / _validate_batch_shapes), independent of the model: weights must
  match the batch dimensions, every leaf must be batch_dims + reference shape"""
  l0, m0 = sc['leaves'][0], sc['means'][0]
  bd = l0[:len(l0) - len(m0)]
  want = 'ok' if ((sc['weights'] is None or sc['weights'] == bd) and
                  all(l == bd + f for l, f in zip(sc['leaves'], sc['means']))) else 'err'
  got = run_shape_case(m, sc)
  if got != want:
    return dict(key='C18:validate_shapes', shape_case=sc,
                what=f'update(validate_shapes=True) {"accepts" if got == "ok" else "rejects"} weights shape '
                     f'{sc["weights"]}, leaf shapes {sc["leaves"]} for feature shapes {sc["means"]} (batch dims {bd})')
  return None


def gen_validate(rng, n, lines, checks, hist, disagreements):
  m = rs()
  for k in range(n):
    sc = gen_shape_case(rng)
    exp = run_shape_case(m, sc)
    sh = lambda s_: [str(len(s_))] + [str(d) for d in s_]
    t = ['C18.validate'] + (['1'] + sh(sc['weights']) if sc['weights'] is not None else ['0'])
    t += ['2'] + sh(sc['leaves'][0]) + sh(sc['leaves'][1]) + ['2'] + sh(sc['means'][0]) + sh(sc['means'][1])
    lines.append(' '.join(t))
    checks.append(('validate', (exp, f'weights={sc["weights"]} leaves={sc["leaves"]} means={sc["means"]}')))
    hist['validate:' + exp] += 1


# ----------------------------------------------------------------------------- search (spec on the implementation)


TINY = [
    dict(kind='array1', leaves=[_leaf([], [1])], F=1, lo=LO, hi=HI, cols=['lattice'],
         batches=[dict(dims=[2], weights=[1, 2], data=[[2.0, 5.0]]), dict(dims=[2], weights=[0, 3], data=[[7.0, 1.0]])]),
    dict(kind='array1', leaves=[_leaf([], [1])], F=1, lo=LO, hi=HI, cols=['lattice'],
         batches=[dict(dims=[3], weights=None, data=[[1.0, 2.0, 6.0]]), dict(dims=[2], weights=None, data=[[4.0, 8.0]])]),
    dict(kind='array1', leaves=[_leaf([], [1])], F=1, lo=LO, hi=HI, cols=['lattice'],
         batches=[dict(dims=[2], weights=[2, 2], data=[[1.0, 3.0]]), dict(dims=[1], weights=[3], data=[[8.0]])]),
    dict(kind='array1', leaves=[_leaf([], [1])], F=1, lo=LO, hi=HI, cols=['lattice'],
         batches=[dict(dims=[2, 2], weights=[1, 0, 2, 1], data=[[1.0, 9.0, 3.0, 5.0]])]),
    dict(kind='array1', leaves=[_leaf([], [1])], F=1, lo=0.5, hi=2.0, cols=['lattice'],
         batches=[dict(dims=[2], weights=[1, 1], data=[[0.0, 100.0]])]),
    dict(kind='array1', leaves=[_leaf([], [1])], F=1, lo=0.5, hi=2.0, cols=['const'],
         batches=[dict(dims=[2], weights=[1, 1], data=[[3.0, 3.0]])]),
]


def repartition(rng, case):
  """same samples, same order of concatenation, different batches (1 axis, weighted)"""
  ws = [w for b in case['batches'] for w in batch_weights(b)]
  feats = None
  for b in case['batches']:
    fb = batch_features(case, b)
    feats = [list(f) for f in fb] if feats is None else [f + g for f, g in zip(feats, fb)]
  N = len(ws)
  first = next(i for i, w in enumerate(ws) if w > 0)
  cuts = sorted(set([0, N] + [int(c) for c in rng.integers(first + 1, N + 1, size=int(rng.integers(0, 4)))]))
  bs = []
  for a, z in zip(cuts[:-1], cuts[1:]):
    data, c = [], 0
    for l in case['leaves']:
      k = nfeat(l)
      d = [feats[c + j][i] for i in range(a, z) for j in range(k)]
      data.append(d); c += k
    bs.append(dict(dims=[z - a], weights=ws[a:z], data=data))
  return dict(case, batches=bs)


def repetition(case):
  """every sample of integer weight w presented w times with weight 1 (1 axis)"""
  bs = []
  for b in case['batches']:
    ws = batch_weights(b)
    idx = [i for i, w in enumerate(ws) for _ in range(int(w))]
    if not idx:
      continue
    data = []
    for l, d in zip(case['leaves'], b['data']):
      k = nfeat(l)
      data.append([d[i * k + j] for i in idx for j in range(k)])
    bs.append(dict(dims=[len(idx)], weights=[1] * len(idx), data=data))
  return dict(case, batches=bs)


def states_close(case, a, b):
  sp = spec_case(case)
  ca, ma, va, sa = flat_state_real(a)
  cb, mb, vb, sb = flat_state_real(b)
  if not close(ca, cb, 0.0):
    return f'count {ca!r} vs {cb!r}'
  for j, s in enumerate(sp):
    if not close(ma[j], mb[j], s['xmax']):
      return f'feature {j}: mean {ma[j]!r} vs {mb[j]!r}'
    if not close(va[j], vb[j], s['s2']):
      return f'feature {j}: summed_variance {va[j]!r} vs {vb[j]!r}'
  return None


def spec_on_case(impl, case, rng=None, exact=True):
  """all spec clauses on one history; returns (failure dict | None)"""
  reals, fracs = run_history(impl, case, exact=exact)
  fails = check_history_spec(case, reals, fracs if exact else None)
  if fails:
    return dict(key='C18:closed_form', what='update: ' + fails[0], case=case, failures=fails[:6])
  if rng is not None:
    alt = repartition(rng, case)
    r2, _ = run_history(impl, alt, exact=False)
    d = states_close(case, reals[-1], r2[-1])
    if d:
      return dict(key='C18:split_invariant', what='two partitions of the same data end in different states: ' + d,
                  case=case, other=alt)
    rep = repetition(case)
    if sum(len(batch_weights(b)) for b in rep['batches']) <= 400:
      r3, _ = run_history(impl, rep, exact=False)
      d = states_close(case, reals[-1], r3[-1])
      if d:
        return dict(key='C18:weight_is_repetition', what='integer weights differ from repeated samples: ' + d,
                    case=case, other=rep)
  return None


def shrink(impl, f):
  """drop trailing batches / other features while the same clause still fails"""
  case = f['case']
  best = f
  for upto in range(1, len(case['batches'])):
    c2 = dict(case, batches=case['batches'][:upto])
    if sum(len(batch_weights(b)) for b in c2['batches']) < 1:
      continue
    try:
      g = spec_on_case(impl, c2, None, exact=True)
    except Exception:
      g = None
    if g and g['key'] == f['key']:
      best = g
      break
  return best


def search(ctx, broken, corr):
  rs()
  rng = np.random.default_rng(ctx.seed + 1)
  impl = Impl()
  found = []
  # the disagreeing inputs and tiny canonical histories first
  first = [d['case'] for d in corr.get('disagreements', []) if isinstance(d.get('case'), dict) and d['case'].get('batches')]
  for case in TINY + first[:3]:
    f = spec_on_case(impl, case, rng, exact=True)
    if f:
      found.append(f)
      break
  if not found:
    t0, budget = time.time(), ctx.budget(50, 540)
    pool = gen_pool(rng, 3, 2)
    structs = [gen_structure(rng) for _ in range(5)]
    while time.time() - t0 < budget:
      case = gen_case(rng, pool, structs)
      f = spec_on_case(impl, case, rng, exact=True)
      if f:
        found.append(shrink(impl, f))
        break
  # normalize / denormalize clauses
  sf = []
  gen_normalize(rng, 40, [], [], Counter(), sf)
  gen_pmap(rng, 3, [], [], Counter(), [], sf)
  for _ in range(60):
    f = validate_spec(rs(), gen_shape_case(rng))
    if f:
      sf.append(f)
      break
  found += _dedupe(sf)[:2]
  return found


# ----------------------------------------------------------------------------- replay


def replay(ctx, rp):
  rs()
  if rp.get('kind') != 'failing-input':
    return True, f'replay names broken obligations only: {rp.get("broken")}'
  impl = Impl()
  if 'case' in rp:
    rng = np.random.default_rng(int(rp.get('seed', 0)) + 1)
    case = rp['case']
    if rp.get('key') in ('C18:split_invariant', 'C18:weight_is_repetition') and 'other' in rp:
      r1, _ = run_history(impl, case, exact=False)
      r2, _ = run_history(impl, rp['other'], exact=False)
      d = states_close(case, r1[-1], r2[-1])
      return (d is None), f'{rp["key"]}: ' + (d or 'states agree')
    f = spec_on_case(impl, case, None, exact=True)
    if f:
      return False, f'{f["key"]}: {f["what"]}'
    reals, _ = run_history(impl, case, exact=False)
    c, ms, vs, sds = flat_state_real(reals[-1])
    return True, f'closed form holds: count={c} mean={ms} summed_variance={vs} std={sds}'
  if 'norm_case' in rp:
    import jax.numpy as jnp
    m = rs()
    nc = rp['norm_case']
    batch = {'f': jnp.asarray([nc['x']]), 'i': jnp.asarray([nc['xi']], dtype=jnp.int32)}
    ms = m.NestedMeanStd(mean={'f': jnp.asarray([nc['mean']]), 'i': jnp.asarray([nc['mean']])},
                         std={'f': jnp.asarray([nc['std']]), 'i': jnp.asarray([nc['std']])})
    nz = m.normalize(batch, ms, max_abs_value=nc['max_abs'])
    rt = m.denormalize(m.normalize(batch, ms), ms)
    dz = m.denormalize(batch, ms)
    ok = (nz['i'].dtype == jnp.int32 and dz['i'].dtype == jnp.int32 and int(nz['i'][0]) == nc['xi']
          and int(dz['i'][0]) == nc['xi']
          and abs(float(rt['f'][0]) - nc['x']) <= 1e-9 * (abs(nc['x']) + abs(nc['mean']) + nc['std'])
          and (nc['max_abs'] is None or abs(float(nz['f'][0])) <= nc['max_abs']))
    return bool(ok), f'normalize={nz} roundtrip={rt} denormalize={dz}'
  if 'pmap_case' in rp:
    import jax.numpy as jnp
    m = rs()
    pc = rp['pmap_case']
    mu = jnp.asarray(pc['mean0'])
    st = m.RunningStatisticsState(count=jnp.asarray(pc['count0']), mean=mu, summed_variance=jnp.asarray(pc['sv0']),
                                  std=jnp.ones_like(mu))
    sf = pmap_spec(m, np.asarray(pc['x'], dtype=np.float64), np.asarray(pc['w'], dtype=np.float64), st)
    return (not sf), ('pmap clauses hold' if not sf else sf[0]['what'])
  if 'shape_case' in rp:
    f = validate_spec(rs(), rp['shape_case'])
    return (f is None), ('shapes handled as documented' if f is None else f['what'])
  return True, 'nothing to replay'
