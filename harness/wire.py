"""Wire helpers shared by the physics correspondences: serialise a brax `System` and arrays in
exactly the order `lean/Brax/Model/Sys.lean` (`Rd.sys`) reads them."""
from __future__ import annotations

import struct
from fractions import Fraction

import numpy as np


def f2hex(x):
  return 'x%016x' % struct.unpack('>Q', struct.pack('>d', float(x)))[0]


def hex2f(t):
  return struct.unpack('>d', struct.pack('>Q', int(t[1:], 16)))[0]


def tok(x, mode='F'):
  """mode F: IEEE bits (exact);  I: integer;  R: fraction"""
  if isinstance(x, Fraction):
    return str(x.numerator) if x.denominator == 1 else f'{x.numerator}/{x.denominator}'
  x = float(x)
  if np.isinf(x):
    return 'inf' if x > 0 else '-inf'
  if mode == 'I':
    if x != int(x):
      raise ValueError(f'not an integer: {x}')
    return str(int(x))
  return f2hex(x)


def parse(t):
  if t.startswith('x'):
    return hex2f(t)
  if '/' in t:
    a, b = t.split('/')
    return int(a) / int(b)
  return float(int(t))


def toks(arr, mode='F'):
  return [tok(v, mode) for v in np.asarray(arr, dtype=np.float64).reshape(-1)]


def sys_tokens(sys, mode='F'):
  """System -> token list (field order of Rd.sys)"""
  A = lambda x: np.asarray(x, dtype=np.float64)
  n = len(sys.link_types)
  t = [sys.link_types if n else '-']
  t += [str(n)] + [str(int(p)) for p in sys.link_parents]
  t += [str(n)]
  L = sys.link
  for i in range(n):
    t += toks(A(L.transform.pos)[i], mode) + toks(A(L.transform.rot)[i], mode)
    t += toks(A(L.joint.pos)[i], mode) + toks(A(L.joint.rot)[i], mode)
    t += toks(A(L.inertia.transform.pos)[i], mode) + toks(A(L.inertia.transform.rot)[i], mode)
    t += toks(A(L.inertia.i)[i], mode) + toks(A(L.inertia.mass)[i], mode)
    t += toks(A(L.invweight)[i], mode)
    t += toks(A(L.constraint_stiffness)[i], mode) + toks(A(L.constraint_vel_damping)[i], mode)
    t += toks(A(L.constraint_limit_stiffness)[i], mode) + toks(A(L.constraint_ang_damping)[i], mode)
  D = sys.dof
  nv = A(D.armature).shape[0]
  t += [str(nv)]
  for i in range(nv):
    t += toks(A(D.motion.ang)[i], mode) + toks(A(D.motion.vel)[i], mode)
    t += toks(A(D.armature)[i], mode) + toks(A(D.stiffness)[i], mode) + toks(A(D.damping)[i], mode)
    if D.limit is None:
      t += ['-inf', 'inf']
    else:
      t += toks(A(D.limit[0])[i], mode) + toks(A(D.limit[1])[i], mode)
    t += toks(A(D.invweight)[i], mode)
  t += ['1' if D.limit is not None else '0']
  a = sys.actuator
  nu = int(np.asarray(a.q_id).shape[0])
  t += [str(nu)]
  for i in range(nu):
    t += [str(int(np.asarray(a.q_id)[i])), str(int(np.asarray(a.qd_id)[i]))]
    t += toks(A(a.ctrl_range)[i], mode) + toks(A(a.force_range)[i], mode)
    t += toks(A(a.gain)[i], mode) + toks(A(a.gear)[i], mode)
    t += toks(A(a.bias_q)[i], mode) + toks(A(a.bias_qd)[i], mode)
  t += toks(A(sys.gravity), mode)
  for v in (sys.opt.timestep, sys.vel_damping, sys.ang_damping, sys.baumgarte_erp,
            sys.spring_mass_scale, sys.spring_inertia_scale, sys.joint_scale_ang,
            sys.joint_scale_pos, sys.collide_scale):
    t += toks(A(v), mode)
  return t


def vec_tokens(x, mode='F'):
  """`n x1 .. xn`"""
  x = np.asarray(x, dtype=np.float64).reshape(-1)
  return [str(len(x))] + toks(x, mode)


def canon_quat(q):
  """quaternion sign canonicalisation: first non-zero component positive"""
  q = np.asarray(q, dtype=np.float64)
  out = q.copy()
  flat = out.reshape(-1, 4)
  for r in flat:
    for c in r:
      if c > 0:
        break
      if c < 0:
        r *= -1
        break
  return out
