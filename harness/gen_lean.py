"""Translator (Tie A): brax leaf functions --jaxpr--> closed Lean definitions.

For every entry of ``SPECS`` the function is imported from ``$VERIF_REPO`` (default /repo),
traced with ``jax.make_jaxpr`` at its fixed small shape, evaluated symbolically
(``jaxpr_eval.SymDomain``) and printed as one Lean ``def`` over the raw operator classes of
``Brax/Scalar.lean``.  numpy twins (``rotate_np`` ...) contain no jax and are executed directly
on object arrays of expression nodes.

Output: lean/Brax/Gen/Math.lean (written only when the content changed).
Self-test: each traced jaxpr is also evaluated over python floats and compared with calling
the real function on random inputs (guards the interpreter itself).
"""
from __future__ import annotations

import os
import sys
from decimal import Decimal
from fractions import Fraction

import numpy as np

HERE = os.path.dirname(os.path.abspath(__file__))
sys.path.insert(0, HERE)
import jaxpr_eval as je  # noqa: E402
from jaxpr_eval import Sym  # noqa: E402

KINDS = {
    'S': [''],
    'V3': ['.x', '.y', '.z'],
    'Q4': ['.w', '.x', '.y', '.z'],
    'M3': ['.r0.x', '.r0.y', '.r0.z', '.r1.x', '.r1.y', '.r1.z', '.r2.x', '.r2.y', '.r2.z'],
    'Tf': ['.pos.x', '.pos.y', '.pos.z', '.rot.w', '.rot.x', '.rot.y', '.rot.z'],
    'Motion': ['.ang.x', '.ang.y', '.ang.z', '.vel.x', '.vel.y', '.vel.z'],
    'Force': ['.ang.x', '.ang.y', '.ang.z', '.vel.x', '.vel.y', '.vel.z'],
    'Inertia': ['.tf.pos.x', '.tf.pos.y', '.tf.pos.z', '.tf.rot.w', '.tf.rot.x', '.tf.rot.y',
                '.tf.rot.z', '.i.r0.x', '.i.r0.y', '.i.r0.z', '.i.r1.x', '.i.r1.y', '.i.r1.z',
                '.i.r2.x', '.i.r2.y', '.i.r2.z', '.mass'],
}
LEAN_TY = {'S': 'α', 'V3': 'V3 α', 'Q4': 'Q4 α', 'M3': 'M3 α', 'Tf': 'Tf α',
           'Motion': 'Motion α', 'Force': 'Force α', 'Inertia': 'Inertia α'}
# leaves of each kind as jax sees them (pytree order), as (shape) list
LEAVES = {
    'S': [()], 'V3': [(3,)], 'Q4': [(4,)], 'M3': [(3, 3)], 'Tf': [(3,), (4,)],
    'Motion': [(3,), (3,)], 'Force': [(3,), (3,)], 'Inertia': [(3,), (4,), (3, 3), ()],
}


def _build(kind, flat):
  """python object of the right brax type from a flat list of scalars (jax or numpy)"""
  import jax.numpy as jp
  from brax import base
  a = lambda xs, shape=None: jp.stack([jp.asarray(x) for x in xs]).reshape(shape or (len(xs),))
  if kind == 'S': return flat[0]
  if kind in ('V3', 'Q4'): return a(flat)
  if kind == 'M3': return a(flat, (3, 3))
  if kind == 'Tf': return base.Transform(pos=a(flat[:3]), rot=a(flat[3:7]))
  if kind == 'Motion': return base.Motion(ang=a(flat[:3]), vel=a(flat[3:]))
  if kind == 'Force': return base.Force(ang=a(flat[:3]), vel=a(flat[3:]))
  if kind == 'Inertia':
    return base.Inertia(transform=base.Transform(pos=a(flat[:3]), rot=a(flat[3:7])),
                        i=a(flat[7:16], (3, 3)), mass=flat[16])
  raise KeyError(kind)


def _flatten_out(kind, out):
  """flat list of scalars from a function result of the given kind"""
  import jax
  leaves = jax.tree_util.tree_leaves(out)
  flat = []
  for l in leaves:
    flat.extend(np.asarray(l, dtype=object).reshape(-1).tolist() if isinstance(l, np.ndarray) and l.dtype == object
                else np.asarray(l).reshape(-1).tolist())
  return flat


def specs():
  """name -> (callable taking brax-typed args, [input kinds], [input names], output kind(s))"""
  from brax import math, base
  T, M, F, I = base.Transform, base.Motion, base.Force, base.Inertia
  S = {}
  def add(name, fn, ins, names, out, np_twin=False):
    S[name] = dict(fn=fn, ins=ins, names=names, out=out, np_twin=np_twin)
  add('rotate', math.rotate, ['V3', 'Q4'], ['v', 'q'], 'V3')
  add('invRotate', math.inv_rotate, ['V3', 'Q4'], ['v', 'q'], 'V3')
  add('quatMul', math.quat_mul, ['Q4', 'Q4'], ['u', 'v'], 'Q4')
  add('quatInv', math.quat_inv, ['Q4'], ['q'], 'Q4')
  add('angToQuat', math.ang_to_quat, ['V3'], ['a'], 'Q4')
  add('vecQuatMul', math.vec_quat_mul, ['V3', 'Q4'], ['u', 'v'], 'Q4')
  add('quatMulAng', math.quat_mul_ang, ['Q4', 'V3'], ['q', 'a'], 'Q4')
  add('relativeQuat', math.relative_quat, ['Q4', 'Q4'], ['q1', 'q2'], 'Q4')
  add('quatTo3x3', math.quat_to_3x3, ['Q4'], ['q'], 'M3')
  add('quatRotAxis', math.quat_rot_axis, ['V3', 'S'], ['axis', 'angle'], 'Q4')
  add('inv3x3', math.inv_3x3, ['M3'], ['m'], 'M3')
  add('safeNorm3', math.safe_norm, ['V3'], ['v'], 'S')
  add('safeNorm4', math.safe_norm, ['Q4'], ['q'], 'S')
  add('normalize3', lambda v: math.normalize(v)[0], ['V3'], ['v'], 'V3')
  add('normalize4', lambda v: math.normalize(v)[0], ['Q4'], ['q'], 'Q4')
  add('fromTo', math.from_to, ['V3', 'V3'], ['v1', 'v2'], 'Q4')
  add('signedAngle', math.signed_angle, ['V3', 'V3', 'V3'], ['axis', 'refP', 'refC'], 'S')
  add('orthogonalsB', lambda a: math.orthogonals(a)[0], ['V3'], ['a'], 'V3')
  add('orthogonalsC', lambda a: math.orthogonals(a)[1], ['V3'], ['a'], 'V3')
  add('eulerToQuat', math.euler_to_quat, ['V3'], ['v'], 'Q4')
  add('quatToEuler', math.quat_to_euler, ['Q4'], ['q'], 'V3')
  add('tfDoTf', lambda s, t: s.do(t), ['Tf', 'Tf'], ['self', 't'], 'Tf')
  add('tfDoMotion', lambda s, m: s.do(m), ['Tf', 'Motion'], ['self', 'm'], 'Motion')
  add('tfInvDoMotion', lambda s, m: s.inv_do(m), ['Tf', 'Motion'], ['self', 'm'], 'Motion')
  add('tfDoForce', lambda s, f: s.do(f), ['Tf', 'Force'], ['self', 'f'], 'Force')
  add('tfDoInertia', lambda s, i: s.do(i), ['Tf', 'Inertia'], ['self', 'it'], 'Inertia')
  add('tfToLocal', lambda s, t: s.to_local(t), ['Tf', 'Tf'], ['self', 't'], 'Tf')
  add('motionCrossM', lambda s, m: s.cross(m), ['Motion', 'Motion'], ['self', 'm'], 'Motion')
  add('motionCrossF', lambda s, f: s.cross(f), ['Motion', 'Force'], ['self', 'f'], 'Force')
  add('motionDotF', lambda s, f: s.dot(f), ['Motion', 'Force'], ['m', 'f'], 'S')
  add('inertiaMul', lambda i, m: i.mul(m), ['Inertia', 'Motion'], ['it', 'm'], 'Force')
  # numpy twins used by the MJCF loader
  add('rotateNp', math.rotate_np, ['V3', 'Q4'], ['v', 'q'], 'V3', np_twin=True)
  add('quatMulNp', math.quat_mul_np, ['Q4', 'Q4'], ['u', 'v'], 'Q4', np_twin=True)
  return S


# --------------------------------------------------------------------------- symbolic run


def symbolic(spec):
  """returns (inputs as list of (name, kind), flat list of output Sym/consts)"""
  import jax
  import jax.numpy as jp
  dom = je.SymDomain()
  in_syms = []
  for nm, kd in zip(spec['names'], spec['ins']):
    in_syms.append([Sym('var', (nm + acc,)) for acc in KINDS[kd]])
  if spec['np_twin']:
    args = []
    for kd, syms in zip(spec['ins'], in_syms):
      arr = np.empty(len(syms), dtype=object)
      arr[:] = syms
      args.append(arr)
    out = spec['fn'](*args)
    flat = list(np.asarray(out, dtype=object).reshape(-1))
    return flat
  n_in = [len(KINDS[k]) for k in spec['ins']]
  def flat_fn(*flat):
    objs, pos = [], 0
    for kd, n in zip(spec['ins'], n_in):
      objs.append(_build(kd, list(flat[pos:pos + n])))
      pos += n
    out = spec['fn'](*objs)
    return [jp.reshape(l, (-1,)) for l in jax.tree_util.tree_leaves(out)]
  closed = jax.make_jaxpr(flat_fn)(*[jp.zeros(()) for _ in range(sum(n_in))])
  flat_in = [ _scalar(s) for syms in in_syms for s in syms]
  outs = je.eval_jaxpr(closed, flat_in, dom)
  flat = []
  for o in outs:
    o = o if je._is_dom(o) else je.lift(dom, o)
    flat.extend(list(o.reshape(-1)))
  return flat, closed, flat_fn


def _scalar(x):
  a = np.empty((), dtype=object)
  a[()] = x
  return a


# --------------------------------------------------------------------------- printing


def lit_to_lean(fr: Fraction, need):
  """exact Lean literal of a rational constant"""
  neg = fr < 0
  a = -fr if neg else fr
  if a.denominator == 1 and a.numerator <= 8:
    n = a.numerator
    if n == 0:
      need.add('Zero'); s = '0'
    else:
      need.add('One')
      if n > 1:
        need.add('Add')
      s = '1' if n == 1 else '(' + ' + '.join(['1'] * n) + ')'
  else:
    # finite decimal?
    d = a.denominator
    k2 = k5 = 0
    while d % 2 == 0: d //= 2; k2 += 1
    while d % 5 == 0: d //= 5; k5 += 1
    if d != 1:
      raise je.Unsupported(f'non-decimal constant {fr}')
    k = max(k2, k5)
    mant = a.numerator * (10 ** k) // a.denominator
    while k > 0 and mant % 10 == 0:
      mant //= 10; k -= 1
    need.add('OfScientific')
    s = f'({mant}e-{k} : α)' if k > 0 else f'({mant}e0 : α)'
  if neg:
    need.add('Neg')
    return f'(-{s})'
  return s


OPS = {'add': ('+', 'Add'), 'sub': ('-', 'Sub'), 'mul': ('*', 'Mul'), 'div': ('/', 'Div')}
FNS = {'sqrt': ('HasSqrt.sqrt', 'HasSqrt'), 'sin': ('HasTrig.sin', 'HasTrig'),
       'cos': ('HasTrig.cos', 'HasTrig'), 'atan2': ('HasTrig.atan2', 'HasTrig'),
       'asin': ('HasTrig.asin', 'HasTrig'), 'acos': ('HasTrig.acos', 'HasTrig'),
       'exp': ('HasExp.exp', 'HasExp'), 'log': ('HasExp.log', 'HasExp'),
       'tanh': ('HasExp.tanh', 'HasExp')}
CLASS_BINDERS = ['Zero', 'One', 'Add', 'Sub', 'Mul', 'Neg', 'Div', 'LT', 'LE', 'OfScientific',
                 'HasSqrt', 'HasTrig', 'HasExp']


def emit_def(name, spec, flat_out):
  need = set()
  # count uses
  uses = {}
  order = []
  seen = set()
  def visit(s):
    if not isinstance(s, Sym) or s.id in seen:
      return
    seen.add(s.id)
    for a in s.args:
      if isinstance(a, Sym):
        uses[a.id] = uses.get(a.id, 0) + 1
        visit(a)
    order.append(s)
  for o in flat_out:
    o = Sym._lift(o) if not isinstance(o, Sym) else o
    uses[o.id] = uses.get(o.id, 0) + 1
    visit(o)
  names = {}
  lets = []
  def expr(s, top=False):
    if s.id in names and not top:
      return names[s.id]
    op = s.op
    if op == 'var':
      return s.args[0]
    if op == 'lit':
      return lit_to_lean(s.args[0], need)
    if op == 'blit':
      return 'true' if s.args[0] else 'false'
    if op in OPS:
      need.add(OPS[op][1])
      return f'({expr(s.args[0])} {OPS[op][0]} {expr(s.args[1])})'
    if op == 'neg':
      need.add('Neg')
      return f'(-{expr(s.args[0])})'
    if op == 'abs':
      need.update(['Zero', 'Neg', 'LT'])
      return f'(absv {expr(s.args[0])})'
    if op in FNS:
      need.add(FNS[op][1])
      return '(' + FNS[op][0] + ' ' + ' '.join(expr(a) for a in s.args) + ')'
    if op == 'lt':
      need.add('LT'); return f'(decide ({expr(s.args[0])} < {expr(s.args[1])}))'
    if op == 'le':
      need.add('LE'); return f'(decide ({expr(s.args[0])} ≤ {expr(s.args[1])}))'
    if op == 'eq':
      need.add('LT'); return f'(eqR {expr(s.args[0])} {expr(s.args[1])})'
    if op == 'ne':
      need.add('LT'); return f'(!(eqR {expr(s.args[0])} {expr(s.args[1])}))'
    if op == 'and': return f'({expr(s.args[0])} && {expr(s.args[1])})'
    if op == 'or': return f'({expr(s.args[0])} || {expr(s.args[1])})'
    if op == 'not': return f'(!{expr(s.args[0])})'
    if op == 'ite':
      return f'(if {expr(s.args[0])} then {expr(s.args[1])} else {expr(s.args[2])})'
    raise je.Unsupported(f'print {op}')
  k = 0
  for s in order:
    if s.op in ('var', 'lit', 'blit'):
      continue
    if uses.get(s.id, 0) > 1:
      k += 1
      nm = f't{k}'
      body = expr(s, top=True)
      ty = 'Bool' if s.is_bool else 'α'
      lets.append(f'  let {nm} : {ty} := {body}')
      names[s.id] = nm
  outs = [expr(Sym._lift(o) if not isinstance(o, Sym) else o) for o in flat_out]
  result = _construct(spec['out'], outs)
  binders = ' '.join(
      (f'[{c} α]' if c not in ('LT', 'LE') else f'[{c} α] [Decidable{c} α]')
      for c in CLASS_BINDERS if c in need)
  params = ' '.join(f'({n} : {LEAN_TY[kd]})' for n, kd in zip(spec['names'], spec['ins']))
  head = f'def {name} {{α : Type}} {binders} {params} : {LEAN_TY[spec["out"]]} :='
  return '\n'.join([head] + lets + ['  ' + result]), sorted(need)


def _construct(kind, outs):
  if kind == 'S':
    return outs[0]
  if kind in ('V3', 'Q4'):
    return '⟨' + ', '.join(outs) + '⟩'
  if kind == 'M3':
    return '⟨' + ', '.join('⟨' + ', '.join(outs[3 * r:3 * r + 3]) + '⟩' for r in range(3)) + '⟩'
  if kind == 'Tf':
    return f'⟨{_construct("V3", outs[:3])}, {_construct("Q4", outs[3:7])}⟩'
  if kind in ('Motion', 'Force'):
    return f'⟨{_construct("V3", outs[:3])}, {_construct("V3", outs[3:6])}⟩'
  if kind == 'Inertia':
    return (f'⟨{_construct("Tf", outs[:7])}, {_construct("M3", outs[7:16])}, {outs[16]}⟩')
  raise KeyError(kind)


# --------------------------------------------------------------------------- self-test


def self_test(name, spec, closed, flat_fn, rng, n=5):
  """float-domain interpretation of the jaxpr vs the real call"""
  import jax.numpy as jp
  dom = je.FloatDomain()
  worst = 0.0
  n_in = sum(len(KINDS[k]) for k in spec['ins'])
  for _ in range(n):
    xs = rng.uniform(-2, 2, size=n_in)
    real = np.concatenate([np.asarray(l).reshape(-1) for l in flat_fn(*[jp.asarray(x) for x in xs])])
    outs = je.eval_jaxpr(closed, [_scalar(float(x)) for x in xs], dom)
    mine = np.array([float(v) for o in outs for v in (o if je._is_dom(o) else je.lift(dom, o)).reshape(-1)])
    ok = np.isfinite(real) & np.isfinite(mine)
    if ok.any():
      worst = max(worst, float(np.max(np.abs(real[ok] - mine[ok]) / (1 + np.abs(real[ok])))))
    if (np.isfinite(real) != np.isfinite(mine)).any():
      worst = float('inf')
  return worst


HEADER = '''import Brax.Model.Math
/-!
# GENERATED by harness/gen_lean.py from the working tree of google/brax — do not edit.

One closed, scalarised definition per leaf function of `brax/math.py` / `brax/base.py`,
obtained by symbolic evaluation of the function's jaxpr.  The theorems of
`Brax/Props/C09.lean` are stated about these definitions.
-/
set_option linter.unusedVariables false
namespace Brax.Gen
open Brax
'''


def generate(out_path=None, seed=0, verbose=False):
  import jax
  jax.config.update('jax_enable_x64', True)
  rng = np.random.default_rng(seed)
  S = specs()
  parts = [HEADER]
  report = {}
  for name, spec in S.items():
    Sym.reset()
    try:
      if spec['np_twin']:
        flat = symbolic(spec)
        closed = flat_fn = None
      else:
        flat, closed, flat_fn = symbolic(spec)
      text, need = emit_def(name, spec, flat)
      err = self_test(name, spec, closed, flat_fn, rng) if closed is not None else 0.0
      report[name] = dict(ok=True, classes=need, selftest_err=err, nodes=Sym._count)
      parts.append(text + '\n')
    except je.Unsupported as e:
      report[name] = dict(ok=False, error=str(e))
      if verbose:
        print('UNSUPPORTED', name, e, file=sys.stderr)
  parts.append('end Brax.Gen\n')
  content = '\n'.join(parts)
  if out_path:
    old = open(out_path).read() if os.path.exists(out_path) else None
    if old != content:
      os.makedirs(os.path.dirname(out_path), exist_ok=True)
      with open(out_path, 'w') as f:
        f.write(content)
  return content, report


def _in_expr(kind, names):
  return _construct(kind, names)


def generate_driver(report, out_path):
  """Lean dispatcher that evaluates every generated definition at Rat (exact) or Float."""
  S = specs()
  lines = ['import Brax.Gen.Math', 'import Brax.Model.Wire',
           '/-! GENERATED by harness/gen_lean.py — evaluates the generated definitions (tie self-check). -/',
           'namespace Brax.Gen', 'open Brax', '']
  cases = []
  for name, spec in S.items():
    rep = report.get(name, {})
    if not rep.get('ok'):
      continue
    n_in = sum(len(KINDS[k]) for k in spec['ins'])
    opaque = any(c in rep['classes'] for c in ('HasSqrt', 'HasTrig', 'HasExp'))
    doms = [('F', 'Float')] if opaque else [('R', 'Rat'), ('F', 'Float')]
    for tag, ty in doms:
      vs = [f'a{i}' for i in range(n_in)]
      args, pos = [], 0
      for kd in spec['ins']:
        n = len(KINDS[kd])
        args.append('(' + _in_expr(kd, vs[pos:pos + n]) + f' : {LEAN_TY[kd].replace("α", ty)})')
        pos += n
      outs = ', '.join(f'r{acc}' for acc in KINDS[spec['out']])
      lines.append(f'def run_{name}_{tag} (ts : List String) : Option String := do')
      lines.append(f'  let (xs, _) ← takeVals (α := {ty}) {n_in} ts')
      lines.append(f'  match xs with')
      lines.append(f'  | [{", ".join(vs)}] =>')
      lines.append(f'    let r := Gen.{name} {" ".join(args)}')
      lines.append(f'    some (renderVals [{outs}])')
      lines.append(f'  | _ => none')
      lines.append('')
      cases.append(f'  | "{name}" :: "{tag}" :: ts => (run_{name}_{tag} ts).getD "bad-args"')
  lines.append('def driverStep (line : String) : String :=')
  lines.append('  match tokens line with')
  lines += cases
  lines.append('  | _ => "bad-op"')
  lines.append('')
  lines.append('end Brax.Gen')
  content = '\n'.join(lines) + '\n'
  old = open(out_path).read() if os.path.exists(out_path) else None
  if old != content:
    with open(out_path, 'w') as f:
      f.write(content)
  return content


if __name__ == '__main__':
  repo = os.environ.get('VERIF_REPO', '/repo')
  sys.path.insert(0, repo)
  out = os.path.join(os.path.dirname(HERE), 'lean', 'Brax', 'Gen', 'Math.lean')
  content, report = generate(out, verbose=True)
  generate_driver(report, out.replace('Math.lean', 'MathDriver.lean'))
  for k, v in report.items():
    print(k, v)
