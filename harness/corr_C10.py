"""C10 — contact detection reports the true geometry of primitive pairs.

Legs (DESIGN.md 2.2, "### C10"):

 A  implementation <-> Lean Model: `contact.get(sys, x)` vs `C10.get` (Lean, Float) run with the
    transcription of the mjx primitives as its `collision` parameter: link_idx exact, elasticity,
    dist, pos, frame[0] at 1e-9, row by row (rows matched by (geom1, geom2, occurrence)).
 B  Lean Model <-> MuJoCo C: `C10.geomWorld` vs `mj_kinematics` geom_xpos / geom_xmat (1e-9).
 C  Lean Spec (closed forms on the model's world poses) <-> implementation: 1e-9 for the pair kinds
    mjx computes without regulariser (plane-sphere, plane-capsule, sphere-sphere); for
    sphere-capsule / capsule-capsule mjx adds 1e-6 to two denominators, the measured deviation is
    reported and bounded by TOL_REG_*.
 S  python Spec (closed forms written independently, on MuJoCo-C world poses, elasticities taken from
    the generator, bodies from the MuJoCo model) <-> implementation: the property itself; runs on every
    case, feeds `spec_failures`, and is what `search` uses.
 D  python Spec dist <-> MuJoCo C `mj_geomDistance` (independent oracle for the closed forms).

That `mjx.collision` implements the closed forms is modelled, not verified: legs C/S/D only sample it.
"""
from __future__ import annotations

import os
import sys
import time

import numpy as np

HERE = os.path.dirname(os.path.abspath(__file__))
sys.path.insert(0, HERE)
import check as C  # noqa: E402
import modelgen  # noqa: E402
import wire  # noqa: E402

TOL = 1e-9            # brax's own algebra; pair kinds without regulariser
# sphere-capsule / capsule-capsule: mjx divides by (|ab|^2 + 1e-6) resp. (1 - cos^2 + 1e-6); the closest
# point moves along the segment by O(1e-6/|ab|^2) (first order in pos / normal, second order in dist).
# Bounds chosen from the measured maxima (notes/C10.md); the measured maxima are written to evidence.
TOL_REG_DIST = 1e-7
TOL_REG_VEC = 2e-3
NEAR_CENTRE = 0.02      # closest centres nearer than this: normal/pos ill-conditioned (1/d), only dist compared
NEAR_PARALLEL = 1e-2    # sin^2 of the angle between two capsule axes below this: likewise
PLANE, SPHERE, CAPSULE = 0, 2, 3
KIND = {(0, 2): 'plane-sphere', (0, 3): 'plane-capsule', (2, 2): 'sphere-sphere',
        (2, 3): 'sphere-capsule', (3, 3): 'capsule-capsule'}
REG_KINDS = ('sphere-capsule', 'capsule-capsule')


def _setup():
  import jax
  jax.config.update('jax_enable_x64', True)


def prepare(ctx):
  """translator tie of the `Mjx.*` transcription: regenerate lean/Brax/Gen/Mjx.lean from the real
  `mujoco.mjx._src.collision_primitive` functions (harness/gen_lean_mjx.py); the bridge theorems
  `mjx_translator_tie_*` of Props/C10.lean are then re-checked against it by the lean stage."""
  _setup()
  import gen_lean_mjx as GM
  out = os.path.join(os.path.dirname(HERE), 'lean', 'Brax', 'Gen', 'Mjx.lean')
  _, rep = GM.generate(out, seed=ctx.seed)
  broken = []
  for name, r in rep.items():
    if not r.get('ok'):
      broken.append(f'mjx translator: {name}: {r.get("error")}')
    elif not (r['selftest_err'] < 1e-9):
      broken.append(f'mjx translator self-test: {name}: jaxpr interpreter differs from the real call by '
                    f'{r["selftest_err"]}')
  return dict(broken=broken)


# ----------------------------------------------------------------------------- scenes


def _f(x):
  return ' '.join(repr(float(v)) for v in np.atleast_1d(x))


def gen_scene(rng, no_contacts=False):
  """plane + 2-3 free bodies with 1-2 sphere/capsule geoms each; per-geom elasticity.
  Edge cases: tilted/offset plane (world geom with a non-trivial local pose), a static world
  sphere/capsule, scalar or absent elasticity; `no_contacts`: one body, one sphere, no plane
  (contact.get returns None)."""
  if no_contacts:
    xml = ('<mujoco model="c10"><worldbody><body name="b0" pos="0 0 1"><freejoint/>'
           '<geom name="g0_0" type="sphere" size="0.1"/></body></worldbody></mujoco>')
    return xml, dict(nb=1, elasticity=[0.0], body=[0], types=['sphere'], tilt=False, emode='default')
  geoms = []     # dict(name, body(-1 world), type, size, pos, quat, e)
  tilt = rng.random() < 0.5
  if tilt:
    ax = np.append(modelgen.rand_unit_vec(rng)[:2], 0.0)
    ax /= np.linalg.norm(ax)
    ang = rng.uniform(-0.6, 0.6)
    pq = np.concatenate([[np.cos(ang / 2)], np.sin(ang / 2) * ax])
    pp = rng.uniform(-0.2, 0.2, size=3)
  else:
    pq, pp = np.array([1.0, 0, 0, 0]), np.zeros(3)
  geoms.append(dict(name='ground', body=-1, type='plane', size=[40.0, 40.0, 40.0], pos=pp, quat=pq))

  def rand_geom(name, body):
    typ = 'sphere' if rng.random() < 0.5 else 'capsule'
    size = [float(rng.uniform(0.05, 0.2))] if typ == 'sphere' else \
        [float(rng.uniform(0.04, 0.12)), float(rng.uniform(0.05, 0.25))]
    return dict(name=name, body=body, type=typ, size=size, pos=rng.uniform(-0.2, 0.2, size=3),
                quat=modelgen.rand_unit_quat(rng))

  if rng.random() < 0.25:
    g = rand_geom('w0', -1)
    g['pos'] = rng.uniform(-0.3, 0.3, size=3) + np.array([0, 0, 0.3])
    geoms.append(g)
  nb = int(rng.integers(2, 4))
  for b in range(nb):
    for k in range(int(rng.integers(1, 3))):
      geoms.append(rand_geom(f'g{b}_{k}', b))
  mode = rng.random()
  emode = ('per-geom' if mode < 0.5 else 'scalar+tuple' if mode < 0.6 else 'tuple' if mode < 0.85 else 'scalar' if mode < 0.95
           else 'default')
  if 0.5 <= mode < 0.6:
    # a non-zero scalar default AND a <tuple> overriding some geoms, boundary values included (a perfectly inelastic geom:
    # prm = 0 exactly); unlisted geoms keep the scalar
    e0 = float(np.round(rng.uniform(0.05, 0.9), 3))
    es, elems = [], ''
    for gi, g in enumerate(geoms):
      if gi == 0 or rng.random() < 0.5:
        e = 0.0 if (gi == 0 or rng.random() < 0.4) else float(np.round(rng.uniform(0.0, 0.9), 3))
        elems += f'<element objtype="geom" objname="{g["name"]}" prm="{e!r}"/>'
      else:
        e = e0
      es.append(e)
    custom = f'<custom><numeric name="elasticity" data="{_f(e0)}"/><tuple name="elasticity">{elems}</tuple></custom>'
  elif mode < 0.6:
    es = [float(np.round(rng.uniform(0, 0.9), 3)) for _ in geoms]
    custom = f'<custom><numeric name="elasticity" data="{_f(es)}"/></custom>'
  elif mode < 0.85:
    # per-geom overrides through a <tuple> only (no numeric fallback): unlisted geoms keep the default 0
    es = [float(np.round(rng.uniform(0.05, 0.9), 3)) if rng.random() < 0.7 else 0.0 for _ in geoms]
    elems = ''.join(f'<element objtype="geom" objname="{g["name"]}" prm="{e!r}"/>' for g, e in zip(geoms, es) if e > 0)
    custom = f'<custom><tuple name="elasticity">{elems}</tuple></custom>' if elems else ''
  elif mode < 0.95:
    e = float(np.round(rng.uniform(0, 0.9), 3))
    es = [e] * len(geoms)
    custom = f'<custom><numeric name="elasticity" data="{_f(e)}"/></custom>'
  else:
    es = [0.0] * len(geoms)
    custom = ''
  for g, e in zip(geoms, es):
    g['e'] = e
  out = ['<mujoco model="c10">', '<compiler angle="radian"/>', custom, '<worldbody>']

  def emit(g):
    return (f'<geom name="{g["name"]}" type="{g["type"]}" size="{_f(g["size"])}" pos="{_f(g["pos"])}" '
            f'quat="{_f(g["quat"])}"/>')
  for g in geoms:
    if g['body'] == -1:
      out.append(emit(g))
  for b in range(nb):
    out.append(f'<body name="b{b}" pos="0 0 {1 + b}"><freejoint/>')
    out += ['  ' + emit(g) for g in geoms if g['body'] == b]
    out.append('</body>')
  out += ['</worldbody>', '</mujoco>']
  meta = dict(nb=nb, elasticity=es, body=[g['body'] for g in geoms], types=[g['type'] for g in geoms],
              tilt=bool(tilt), emode=emode)
  return '\n'.join(out), meta


def rand_pose(rng, nb):
  pos = rng.uniform(-0.35, 0.35, size=(nb, 3)) + np.array([0, 0, 0.3])
  rot = np.stack([modelgen.rand_unit_quat(rng) for _ in range(nb)])
  return pos, rot


# ----------------------------------------------------------------------------- python Spec (independent)


def s_plane_sphere(p, n, c, r):
  d = float(n @ (c - p)) - r
  return d, c - n * (r + d / 2), n


def s_sphere_sphere(c1, r1, c2, r2):
  dv = c2 - c1
  L = float(np.linalg.norm(dv))
  n = dv / L if L > 0 else np.array([1.0, 0, 0])
  d = L - r1 - r2
  return d, c1 + n * (r1 + d / 2), n


def s_closest_on_seg(a, b, q):
  ab = b - a
  t = min(1.0, max(0.0, float((q - a) @ ab) / float(ab @ ab)))
  return a + t * ab


def s_seg_seg(p1, q1, p2, q2):
  """closest points of two segments: interior critical point of the (convex) squared distance if it
  lies in the unit square, otherwise the best of the four end-point-to-segment candidates"""
  d1, d2, r = q1 - p1, q2 - p2, p1 - p2
  a, e, b = d1 @ d1, d2 @ d2, d1 @ d2
  c, f = d1 @ r, d2 @ r
  den = a * e - b * b
  if den > 1e-14 * a * e:
    s, t = (b * f - c * e) / den, (a * f - b * c) / den
    if 0 <= s <= 1 and 0 <= t <= 1:
      return p1 + s * d1, p2 + t * d2
  cands = [(p1, s_closest_on_seg(p2, q2, p1)), (q1, s_closest_on_seg(p2, q2, q1)),
           (s_closest_on_seg(p1, q1, p2), p2), (s_closest_on_seg(p1, q1, q2), q2)]
  return min(cands, key=lambda ab_: float(np.linalg.norm(ab_[0] - ab_[1])))


def spec_rows(t1, sz1, x1, m1, t2, sz2, x2, m2):
  """closed-form candidates [(dist, pos, normal)] of an ordered geom pair in the world frame"""
  if (t1, t2) == (PLANE, SPHERE):
    return [s_plane_sphere(x1, m1[:, 2], x2, sz2[0])]
  if (t1, t2) == (PLANE, CAPSULE):
    seg = m2[:, 2] * sz2[1]
    return [s_plane_sphere(x1, m1[:, 2], x2 + seg, sz2[0]), s_plane_sphere(x1, m1[:, 2], x2 - seg, sz2[0])]
  if (t1, t2) == (SPHERE, SPHERE):
    return [s_sphere_sphere(x1, sz1[0], x2, sz2[0])]
  if (t1, t2) == (SPHERE, CAPSULE):
    seg = m2[:, 2] * sz2[1]
    return [s_sphere_sphere(x1, sz1[0], s_closest_on_seg(x2 - seg, x2 + seg, x1), sz2[0])]
  if (t1, t2) == (CAPSULE, CAPSULE):
    s1, s2 = m1[:, 2] * sz1[1], m2[:, 2] * sz2[1]
    a, b = s_seg_seg(x1 - s1, x1 + s1, x2 - s2, x2 + s2)
    return [s_sphere_sphere(a, sz1[0], b, sz2[0])]
  return None


# ----------------------------------------------------------------------------- real code


class Scene:
  def __init__(self, xml, meta):
    _setup()
    import jax
    from brax import base, contact
    from brax.io import mjcf
    self.xml, self.meta = xml, meta
    self.sys = mjcf.loads(xml)
    self.m = self.sys.mj_model
    sysm = self.sys
    self._get = jax.jit(lambda p, r: contact.get(sysm, base.Transform(pos=p, rot=r)))

  def real(self, pos, rot):
    import jax.numpy as jp
    c = self._get(jp.asarray(pos), jp.asarray(rot))
    if c is None:
      return None
    A = np.asarray
    return dict(geom1=A(c.geom1).astype(int), geom2=A(c.geom2).astype(int), dist=A(c.dist, dtype=np.float64),
                pos=A(c.pos, dtype=np.float64), normal=A(c.frame, dtype=np.float64)[:, 0, :],
                link1=A(c.link_idx[0]).astype(int), link2=A(c.link_idx[1]).astype(int),
                elasticity=A(c.elasticity, dtype=np.float64),
                dtypes=sorted({str(c.dist.dtype), str(c.pos.dtype), str(c.frame.dtype), str(c.elasticity.dtype)}))

  def mj_world(self, pos, rot):
    """independent world poses of the geoms: MuJoCo C kinematics with the free bodies at x"""
    import mujoco
    d = mujoco.MjData(self.m)
    d.qpos[:] = np.concatenate([pos, rot], axis=1).reshape(-1)
    mujoco.mj_kinematics(self.m, d)
    return d, d.geom_xpos.copy(), d.geom_xmat.reshape(-1, 3, 3).copy()

  def tokens(self, pos, rot, with_e_pairs=None):
    s = self.sys
    n = pos.shape[0]
    t = [str(n)]
    for i in range(n):
      t += wire.toks(pos[i]) + wire.toks(rot[i])
    ng = int(np.asarray(s.geom_bodyid).shape[0])
    t += [str(ng)]
    for g in range(ng):
      t += [str(int(np.asarray(s.geom_bodyid)[g])), str(int(np.asarray(s.geom_type)[g]))]
      t += wire.toks(np.asarray(s.geom_size)[g]) + wire.toks(np.asarray(s.geom_pos)[g]) + wire.toks(np.asarray(s.geom_quat)[g])
    if with_e_pairs is not None:
      e = np.asarray(s.elasticity, dtype=np.float64).reshape(-1)
      t += [str(len(e))] + wire.toks(e)
      t += [str(len(with_e_pairs))] + [str(v) for p in with_e_pairs for v in p]
    return t


def row_keys(g1, g2):
  seen, keys = {}, []
  for a, b in zip(g1, g2):
    k = seen.get((int(a), int(b)), 0)
    seen[(int(a), int(b))] = k + 1
    keys.append((int(a), int(b), k))
  return keys


def check_spec(sc, pos, rot, real, tol_scale=1.0):
  """the property, evaluated on the implementation with the independent python Spec.
  Returns (failures, per-row deviations for statistics, D-leg failures)."""
  fails, stats, dleg = [], [], []
  d, gx, gm = sc.mj_world(pos, rot)
  m = sc.m
  if real is None:
    return fails, stats, dleg
  import mujoco
  keys = row_keys(real['geom1'], real['geom2'])
  for i, (g1, g2, k) in enumerate(keys):
    t1, t2 = int(m.geom_type[g1]), int(m.geom_type[g2])
    kind = KIND.get((t1, t2))
    base = dict(xml=sc.xml, pos=pos.tolist(), rot=rot.tolist(), row=i, geom1=g1, geom2=g2)
    # attribution: links that own the geoms (world = -1)
    want_l = (int(m.geom_bodyid[g1]) - 1, int(m.geom_bodyid[g2]) - 1)
    got_l = (int(real['link1'][i]), int(real['link2'][i]))
    if got_l != want_l:
      fails.append(dict(base, key='link_idx', what=f'link_idx {got_l} but geoms {g1},{g2} belong to links {want_l}',
                        got=list(got_l), want=list(want_l)))
      continue
    want_e = (sc.meta['elasticity'][g1] + sc.meta['elasticity'][g2]) / 2
    if abs(real['elasticity'][i] - want_e) > TOL:
      fails.append(dict(base, key='elasticity', what=f'elasticity {real["elasticity"][i]} is not the mean {want_e} '
                        f'of the geoms\' elasticities', got=float(real['elasticity'][i]), want=want_e))
      continue
    if kind is None:
      raise RuntimeError(f'generator produced an unexpected pair kind {(t1, t2)}')
    want = spec_rows(t1, m.geom_size[g1], gx[g1], gm[g1], t2, m.geom_size[g2], gx[g2], gm[g2])[k]
    td = (TOL_REG_DIST if kind in REG_KINDS else TOL) * tol_scale
    tv = (TOL_REG_VEC if kind in REG_KINDS else TOL) * tol_scale
    dd = abs(real['dist'][i] - want[0])
    dp = float(np.max(np.abs(real['pos'][i] - want[1])))
    dn = float(np.max(np.abs(real['normal'][i] - want[2])))
    # conditioning of normal / pos: distance of the two closest centres (coincident centres have no
    # normal), and for two capsules the angle between the axes (parallel axes: closest points not unique)
    cdist = float(real['dist'][i] + (m.geom_size[g1][0] if t1 != PLANE else 0.0) + m.geom_size[g2][0])
    sin2 = 1.0 - float(gm[g1][:, 2] @ gm[g2][:, 2]) ** 2 if kind == 'capsule-capsule' else 1.0
    singular = kind in REG_KINDS and (cdist < NEAR_CENTRE or sin2 < NEAR_PARALLEL)
    stats.append((kind, dd, dp, dn, float(real['dist'][i]), singular))
    if singular:
      dp = dn = 0.0      # counted as skipped_near_singularity; dist is still compared
    if dd > td:
      fails.append(dict(base, key=f'dist:{kind}', what=f'{kind} dist {real["dist"][i]} but closed form {want[0]}',
                        got=float(real['dist'][i]), want=float(want[0])))
    elif dn > tv:
      fails.append(dict(base, key=f'normal:{kind}', what=f'{kind} frame[0] {real["normal"][i].tolist()} but the unit '
                        f'vector from geom {g1} to geom {g2} is {want[2].tolist()}',
                        got=real['normal'][i].tolist(), want=want[2].tolist()))
    elif dp > tv:
      fails.append(dict(base, key=f'pos:{kind}', what=f'{kind} pos {real["pos"][i].tolist()} but midpoint of the '
                        f'nearest surface points is {want[1].tolist()}', got=real['pos'][i].tolist(), want=want[1].tolist()))
    # D: closed form vs MuJoCo C (plane-capsule: C reports the nearer end)
    if kind != 'plane-capsule' or k == 0:
      ft = np.zeros(6)
      dc = mujoco.mj_geomDistance(m, d, g1, g2, 10.0, ft)
      ws = want[0] if kind != 'plane-capsule' else min(
          r[0] for r in spec_rows(t1, m.geom_size[g1], gx[g1], gm[g1], t2, m.geom_size[g2], gx[g2], gm[g2]))
      if abs(dc - ws) > 1e-8:
        dleg.append(dict(what=f'python Spec {kind} dist {ws} differs from mujoco.mj_geomDistance {dc}', **base))
  return fails, stats, dleg


# ----------------------------------------------------------------------------- cases


def targeted(rng, sc, pos, rot, real):
  """move one body along a contact normal so that the chosen candidate gets a chosen distance
  (0 = touching, or uniform in [-0.3, 0.7]); exact for plane/sphere pairs"""
  if real is None:
    return pos
  i = int(rng.integers(len(real['dist'])))
  target = 0.0 if rng.random() < 0.4 else float(rng.uniform(-0.3, 0.7))
  l1, l2 = int(real['link1'][i]), int(real['link2'][i])
  pos = pos.copy()
  shift = (target - real['dist'][i]) * real['normal'][i]
  if l2 >= 0:
    pos[l2] += shift
  elif l1 >= 0:
    pos[l1] -= shift
  return pos


def run_cases(ctx, n_scenes, n_poses, seed_offset=0, budget_s=None, spec_only=False):
  _setup()
  rng = np.random.default_rng(ctx.seed + seed_offset)
  t0 = time.time()
  lines, cases = [], []
  spec_failures, dleg_fail = [], []
  stats = []
  hist = dict(pair_kinds={}, rows_in_range=0, rows_total=0, dist_hist={}, scenes=0, tilted_plane=0, world_geom=0,
              elasticity_mode={}, none_contacts=0, targeted=0, touching_rows=0, dtypes=set())
  for si in range(n_scenes):
    if budget_s is not None and time.time() - t0 > budget_s:
      break
    xml, meta = gen_scene(rng, no_contacts=(si == 1))
    sc = Scene(xml, meta)
    hist['scenes'] += 1
    hist['tilted_plane'] += meta['tilt']
    hist['world_geom'] += sum(1 for b, t in zip(meta['body'], meta['types']) if b == -1 and t != 'plane') > 0
    hist['elasticity_mode'][meta['emode']] = hist['elasticity_mode'].get(meta['emode'], 0) + 1
    for pi in range(n_poses):
      pos, rot = rand_pose(rng, meta['nb'])
      if pi > 0:
        pos = targeted(rng, sc, pos, rot, sc.real(pos, rot))
        hist['targeted'] += 1
      real = sc.real(pos, rot)
      fails, st, dl = check_spec(sc, pos, rot, real)
      spec_failures += fails
      dleg_fail += dl
      stats += st
      if real is None:
        hist['none_contacts'] += 1
        pairs = []
      else:
        hist['dtypes'] |= set(real['dtypes'])
        keys = row_keys(real['geom1'], real['geom2'])
        pairs = [(a, b) for a, b, k in keys if k == 0]
        for (a, b, k), dv in zip(keys, real['dist']):
          kind = KIND.get((int(sc.m.geom_type[a]), int(sc.m.geom_type[b])), 'other')
          hist['pair_kinds'][kind] = hist['pair_kinds'].get(kind, 0) + 1
          hist['rows_total'] += 1
          inr = -0.3 <= dv <= 0.7
          hist['rows_in_range'] += bool(inr)
          hist['touching_rows'] += bool(abs(dv) < 1e-9)
          b_ = 'lt-0.3' if dv < -0.3 else 'gt0.7' if dv > 0.7 else f'{np.floor(dv * 10) / 10:+.1f}'
          hist['dist_hist'][b_] = hist['dist_hist'].get(b_, 0) + 1
      if not spec_only:
        lines.append(' '.join(['get'] + sc.tokens(pos, rot, with_e_pairs=pairs)))
        lines.append(' '.join(['pose'] + sc.tokens(pos, rot)))
        _, gx, gm = sc.mj_world(pos, rot)
        cases.append(dict(xml=xml, pos=pos, rot=rot, real=real, gx=gx, gm=gm, types=sc.m.geom_type.copy(),
                          sizes=sc.m.geom_size.copy()))
  hist['dtypes'] = sorted(hist['dtypes'])
  return lines, cases, spec_failures, dleg_fail, stats, hist


def compare_lean(cases, out):
  dis = []
  dev = dict(model_max=0.0, spec_noreg_max=0.0, spec_reg_dist_max=0.0, spec_reg_vec_max=0.0, pose_max=0.0,
             skipped_near_singularity=0)
  n_eval = 0
  for k, c in enumerate(cases):
    o_get, o_pose = out[2 * k], out[2 * k + 1]
    base = dict(xml=c['xml'], pos=c['pos'].tolist(), rot=c['rot'].tolist())
    if o_get.startswith('bad') or o_pose.startswith('bad'):
      dis.append(dict(what=f'driver rejected the case: {o_get[:20]} / {o_pose[:20]}', **base)); continue
    # B: geom world poses vs MuJoCo C
    pw = np.array([wire.parse(t) for t in o_pose.split()]).reshape(-1, 12)
    want = np.concatenate([c['gx'], c['gm'].reshape(-1, 9)], axis=1)
    dpose = float(np.max(np.abs(pw - want)))
    dev['pose_max'] = max(dev['pose_max'], dpose)
    n_eval += 1
    if dpose > TOL:
      g = int(np.argmax(np.max(np.abs(pw - want), axis=1)))
      dis.append(dict(what=f'C10.geomWorld (Lean) differs from MuJoCo C geom_xpos/geom_xmat at geom {g} by {dpose:.3g}',
                      lean=pw[g].tolist(), mujoco=want[g].tolist(), **base)); continue
    real = c['real']
    if real is None:
      if o_get != 'none':
        dis.append(dict(what=f'contact.get returned None but the model answered {o_get[:30]}', **base))
      continue
    toks = o_get.split()
    if toks[0] != 'ok' or (len(toks) - 1) != 19 * len(real['dist']):
      dis.append(dict(what=f'model returned {(len(toks) - 1) / 19} rows, contact.get {len(real["dist"])}', **base)); continue
    rows = [toks[1 + 19 * i: 1 + 19 * (i + 1)] for i in range(len(real['dist']))]
    for i, r in enumerate(rows):
      n_eval += 1
      g1, g2, l1, l2 = (int(v) for v in r[:4])
      vals = np.array([wire.parse(t) for t in r[4:]])
      e, md, mp, mn = vals[0], vals[1], vals[2:5], vals[5:8]
      sd, sp, sn = vals[8], vals[9:12], vals[12:15]
      if (g1, g2) != (int(real['geom1'][i]), int(real['geom2'][i])):
        dis.append(dict(what=f'row {i}: model pair {(g1, g2)} vs contact.get {(real["geom1"][i], real["geom2"][i])}', **base)); break
      if (l1, l2) != (int(real['link1'][i]), int(real['link2'][i])):
        dis.append(dict(what=f'row {i}: link_idx model {(l1, l2)} vs contact.get {(int(real["link1"][i]), int(real["link2"][i]))}',
                        **base)); break
      if abs(e - real['elasticity'][i]) > TOL:
        dis.append(dict(what=f'row {i}: elasticity model {e} vs contact.get {real["elasticity"][i]}', **base)); break
      dm = max(abs(md - real['dist'][i]), float(np.max(np.abs(mp - real['pos'][i]))), float(np.max(np.abs(mn - real['normal'][i]))))
      dev['model_max'] = max(dev['model_max'], dm)
      if dm > TOL:
        dis.append(dict(what=f'row {i} (geoms {g1},{g2}): C10.get with the mjx transcription differs from contact.get by {dm:.3g}',
                        lean=[md] + mp.tolist() + mn.tolist(),
                        real=[float(real['dist'][i])] + real['pos'][i].tolist() + real['normal'][i].tolist(), **base)); break
      kind = KIND[(int(c['types'][g1]), int(c['types'][g2]))]
      dd = abs(sd - real['dist'][i])
      dv = max(float(np.max(np.abs(sp - real['pos'][i]))), float(np.max(np.abs(sn - real['normal'][i]))))
      if kind in REG_KINDS:
        t1 = int(c['types'][g1])
        cdist = float(real['dist'][i] + (c['sizes'][g1][0] if t1 != PLANE else 0.0) + c['sizes'][g2][0])
        sin2 = 1.0 - float(c['gm'][g1][:, 2] @ c['gm'][g2][:, 2]) ** 2 if kind == 'capsule-capsule' else 1.0
        if cdist < NEAR_CENTRE or sin2 < NEAR_PARALLEL:
          dev['skipped_near_singularity'] += 1
          dv = 0.0
        dev['spec_reg_dist_max'] = max(dev['spec_reg_dist_max'], dd)
        dev['spec_reg_vec_max'] = max(dev['spec_reg_vec_max'], dv)
        bad = dd > TOL_REG_DIST or dv > TOL_REG_VEC
      else:
        dev['spec_noreg_max'] = max(dev['spec_noreg_max'], dd, dv)
        bad = max(dd, dv) > TOL
      if bad:
        dis.append(dict(what=f'row {i} ({kind}, geoms {g1},{g2}): Lean Spec closed form differs from contact.get: '
                        f'dist by {dd:.3g}, pos/normal by {dv:.3g}',
                        lean=[sd] + sp.tolist() + sn.tolist(),
                        real=[float(real['dist'][i])] + real['pos'][i].tolist() + real['normal'][i].tolist(), **base)); break
  return dis, dev, n_eval


def correspond(ctx):
  lines, cases, spec_failures, dleg, stats, hist = run_cases(ctx, ctx.budget(30, 300), 3)
  out = C.run_driver('Driver/C10.lean', lines)
  if len(out) != len(lines):
    raise RuntimeError(f'driver answered {len(out)} lines for {len(lines)}')
  dis, dev, n_eval = compare_lean(cases, out)
  dis += dleg[:3]
  per_kind = {}
  for kind, dd, dp, dn, _, singular in stats:
    a = per_kind.setdefault(kind, dict(rows=0, dist=0.0, pos=0.0, normal=0.0, skipped_near_singularity=0))
    a['rows'] += 1
    a['dist'] = max(a['dist'], float(dd))
    if singular:
      a['skipped_near_singularity'] += 1
    else:
      a['pos'], a['normal'] = max(a['pos'], dp), max(a['normal'], dn)
  c0 = cases[0]
  sample = dict(pos=c0['pos'].tolist(), rot=c0['rot'].tolist(),
                rows=None if c0['real'] is None else [
                    dict(geom1=int(a), geom2=int(b), dist=float(d), link_idx=[int(l1), int(l2)], elasticity=float(e))
                    for a, b, d, l1, l2, e in zip(c0['real']['geom1'], c0['real']['geom2'], c0['real']['dist'],
                                                  c0['real']['link1'], c0['real']['link2'], c0['real']['elasticity'])][:4])
  # dedupe spec failures by key, keep the first of each (replay = that input)
  seen, sf = set(), []
  for f in spec_failures:
    if f['key'] not in seen:
      seen.add(f['key']); sf.append(f)
  return dict(
      evaluations=n_eval + len(stats), distinct_nontrivial=hist['rows_in_range'],
      rule='scenes = plane (half of them tilted/offset) + 2-3 free bodies with 1-2 sphere/capsule geoms (random radius, '
           'half-length, local pose, per-geom elasticity; a quarter with an extra static world geom) x 3 link poses '
           '(random; two of three moved along a contact normal so that a random candidate touches or sits at a chosen '
           'distance in [-0.3,0.7]); every candidate row of contact.get is compared with the Lean model (1e-9), the Lean '
           'Spec and the python Spec; distinct_nontrivial = candidate rows whose reported distance lies in [-0.3,0.7]',
      samples=[sample], disagreements=dis, spec_failures=sf,
      trusted_base=['correspondence harness corr_C10.py (sampled inputs, float64)',
                    'mujoco.mjx collision primitives: MODELLED, NOT VERIFIED (the Model takes mjx.collision as a parameter; '
                    'that it returns the closed forms is only sampled here, against the Lean Spec, an independent python '
                    'Spec and MuJoCo C mj_geomDistance)',
                    'MuJoCo C mj_kinematics (geom world poses) and mj_geomDistance as reference',
                    'collision_driver.geom_pairs (which pairs are candidates, and their order) taken as data'],
      assumptions=['IEEE round-off not modelled; theorems over the reals',
                   f'mjx regularises sphere-capsule / capsule-capsule closest points with +1e-6 in two denominators: the '
                   f'reported values differ from the exact closed forms by up to the measured deviations '
                   f'(bounds used: dist {TOL_REG_DIST}, pos/normal {TOL_REG_VEC})',
                   'unit link quaternions (as produced by the pipelines)'],
      explanation='brax\'s own part of contact.get (geom world pose, link_idx, elasticity) is modelled and proved; the '
                  'closed forms are the Spec, proved invariant under rigid motions; rows are matched by (geom1, geom2, occurrence)',
      extra=dict(histogram=hist, max_deviation=dev, python_spec_vs_real_per_kind=per_kind,
                 tolerances=dict(model=TOL, spec_without_regulariser=TOL, spec_reg_dist=TOL_REG_DIST, spec_reg_vec=TOL_REG_VEC)))


def search(ctx, broken, corr):
  """the Spec (python closed forms) against the real contact.get over the property's quantifier"""
  _, _, fails, _, _, _ = run_cases(ctx, ctx.budget(40, 400), 3, seed_offset=1000,
                                   budget_s=ctx.budget(55, 580), spec_only=True)
  seen, out = set(), []
  for f in fails:
    if f['key'] not in seen:
      seen.add(f['key']); out.append(f)
  return out


def replay(ctx, rp):
  if rp.get('kind') != 'failing-input':
    return True, f'replay names broken obligations only: {rp.get("broken")}'
  _setup()
  import re
  xml = rp['xml']
  m = re.search(r'name="elasticity" data="([^"]*)"', xml)
  ng = len(re.findall(r'<geom ', xml))
  es = [float(v) for v in m.group(1).split()] if m else [0.0]
  es = es * ng if len(es) == 1 else es
  sc = Scene(xml, dict(elasticity=es))
  pos, rot = np.array(rp['pos']), np.array(rp['rot'])
  real = sc.real(pos, rot)
  fails, _, _ = check_spec(sc, pos, rot, real)
  mine = [f for f in fails if f['row'] == rp['row']] or fails
  if mine:
    return False, f'row {mine[0]["row"]}: {mine[0]["what"]}'
  return True, f'row {rp["row"]}: contact.get agrees with the closed forms, owner links and mean elasticity'
