"""C04 — internal forces obey Newton's first and third laws (spring and positional pipelines).

Model <-> implementation (Tie B, DESIGN.md 2.2), all through `lean/Driver/C04.lean`:

* exact-lattice (integers, equality): `com.from_world/to_world`, the assembly part of
  `spring.joints.resolve` (the per-type leaf functions are swapped for a data carrier so that an
  ARBITRARY integer joint-frame force enters the real assembly code), `positional.joints.
  acceleration_update`, `actuator.to_tau`;
* float (1e-9 relative): `com.inv_inertia`, `spring.joints.resolve` (with the real
  `_one_dof/_two_dof/_three_dof`), `spring.collisions.resolve` and `positional.collisions.
  resolve_position/resolve_velocity` on synthetic contact lists (contacts are data) and on the real
  `contact.get` of two-body scenes, `positional.joints.position_update`, and the full
  `spring.pipeline.step` / `positional.pipeline.step` on generator models (limits, actuators) and
  two-body collision scenes.

Spec on the implementation (the property's own observation; also what `search` runs):

* momentum: `sum_i mass_i * xd_i.vel` before/after `pipeline.step` for every step of 1-200-step
  histories with random controls on free-rooted generator models and two-body scenes:
  `|P' - P - M g dt| <= TOL_P * (1 + sum_i |m_i v_i| + sum_i |m_i v_i'|)`, `mass = state.mass =
  link mass ** (1 - spring_mass_scale)` (the mass the pipelines integrate with);
* rest: one step from `qd = 0` without gravity, joint springs, control or contact leaves `x, xd,
  x_i, xd_i` unchanged (1e-9) in the spring, positional and generalized pipelines.
"""
from __future__ import annotations

import os
import sys

import numpy as np

HERE = os.path.dirname(os.path.abspath(__file__))
sys.path.insert(0, HERE)
import check as C  # noqa: E402
import modelgen  # noqa: E402
import wire  # noqa: E402

TOL = 1e-9        # float correspondence, relative
TOL_P = 1e-9      # momentum, relative to the momentum scale
TOL_REST = 1e-9   # rest case, absolute on positions / velocities
DRIVER = 'Driver/C04.lean'


def _setup():
  import jax
  jax.config.update('jax_enable_x64', True)


# ----------------------------------------------------------------------------- tokens

A = lambda x: np.asarray(x, dtype=np.float64)


def tf_tokens(t, mode='F'):
  pos, rot = A(t.pos), A(t.rot)
  out = [str(len(pos))]
  for i in range(len(pos)):
    out += wire.toks(pos[i], mode) + wire.toks(rot[i], mode)
  return out


def mo_tokens(m, mode='F'):
  ang, vel = A(m.ang), A(m.vel)
  out = [str(len(ang))]
  for i in range(len(ang)):
    out += wire.toks(ang[i], mode) + wire.toks(vel[i], mode)
  return out


def m3_tokens(m):
  m = A(m)
  out = [str(len(m))]
  for i in range(len(m)):
    out += wire.toks(m[i])
  return out


def spring_state_tokens(st):
  return (wire.vec_tokens(st.q) + wire.vec_tokens(st.qd) + tf_tokens(st.x) + mo_tokens(st.xd)
          + tf_tokens(st.x_i) + mo_tokens(st.xd_i) + tf_tokens(st.j) + mo_tokens(st.jd)
          + tf_tokens(st.a_p) + tf_tokens(st.a_c) + m3_tokens(st.i_inv) + wire.vec_tokens(st.mass))


def pos_state_tokens(st):
  return (wire.vec_tokens(st.q) + wire.vec_tokens(st.qd) + tf_tokens(st.x) + mo_tokens(st.xd)
          + tf_tokens(st.x_i) + mo_tokens(st.xd_i) + tf_tokens(st.j) + mo_tokens(st.jd)
          + tf_tokens(st.a_p) + tf_tokens(st.a_c) + wire.vec_tokens(st.mass))


def contact_rows(c):
  """list of (l1, l2, dist, pos, normal, friction0, elasticity) from a brax Contact or None"""
  if c is None:
    return []
  l1, l2 = np.asarray(c.link_idx[0]), np.asarray(c.link_idx[1])
  return [(int(l1[k]), int(l2[k]), float(A(c.dist)[k]), A(c.pos)[k], A(c.frame)[k, 0],
           float(A(c.friction)[k, 0]), float(A(c.elasticity)[k])) for k in range(len(l1))]


def contact_tokens(rows):
  out = [str(len(rows))]
  for (l1, l2, d, p, n, f, e) in rows:
    out += [str(l1), str(l2), wire.tok(d)] + wire.toks(p) + wire.toks(n) + [wire.tok(f), wire.tok(e)]
  return out


def state_vector(st):
  """x, xd, x_i, xd_i, j, jd, a_p, a_c flattened in the driver's order"""
  parts = []
  for t in (st.x,):
    parts.append(np.concatenate([A(t.pos), A(t.rot)], axis=1).reshape(-1))
  parts.append(np.concatenate([A(st.xd.ang), A(st.xd.vel)], axis=1).reshape(-1))
  parts.append(np.concatenate([A(st.x_i.pos), A(st.x_i.rot)], axis=1).reshape(-1))
  parts.append(np.concatenate([A(st.xd_i.ang), A(st.xd_i.vel)], axis=1).reshape(-1))
  parts.append(np.concatenate([A(st.j.pos), A(st.j.rot)], axis=1).reshape(-1))
  parts.append(np.concatenate([A(st.jd.ang), A(st.jd.vel)], axis=1).reshape(-1))
  parts.append(np.concatenate([A(st.a_p.pos), A(st.a_p.rot)], axis=1).reshape(-1))
  parts.append(np.concatenate([A(st.a_c.pos), A(st.a_c.rot)], axis=1).reshape(-1))
  return np.concatenate(parts)


def close(a, b, tol=TOL):
  a, b = np.asarray(a, dtype=np.float64), np.asarray(b, dtype=np.float64)
  if a.shape != b.shape:
    return False
  if not (np.isfinite(a).all() and np.isfinite(b).all()):
    return bool(np.array_equal(np.isnan(a), np.isnan(b)) and
                np.allclose(a[np.isfinite(a)], b[np.isfinite(b)], rtol=tol, atol=tol))
  scale = 1.0 + max(float(np.abs(b).max()) if b.size else 0.0, 0.0) * 0.0
  return bool(np.all(np.abs(a - b) <= tol * (scale + np.abs(b))))


def parse_line(o):
  return np.array([wire.parse(t) for t in o.split() if t != '|'], dtype=np.float64)


# ----------------------------------------------------------------------------- scenes


def two_body_xml(rng, gravity=(0.0, 0.0, -9.81), elasticity=True):
  """two free bodies with sphere/capsule geoms in contact, no ground"""
  def geom(i, g):
    typ = str(rng.choice(['sphere', 'capsule']))
    size = [float(rng.uniform(0.15, 0.25))] if typ == 'sphere' else \
        [float(rng.uniform(0.1, 0.18)), float(rng.uniform(0.1, 0.25))]
    s = (f'<geom name="g{i}_{g}" type="{typ}" size="{" ".join(repr(v) for v in size)}" '
         f'density="{float(rng.uniform(300, 2000))!r}" contype="1" conaffinity="1"')
    if g > 0:
      s += f' pos="{modelgen._f(rng.uniform(-0.1, 0.1, size=3))}" quat="{modelgen._f(modelgen.rand_unit_quat(rng))}"'
    return s + '/>'
  out = ['<mujoco model="two">', '<compiler angle="radian" autolimits="false"/>',
         f'<option timestep="0.002" gravity="{modelgen._f(gravity)}"/>']
  out.append('<custom>')
  if elasticity:
    out.append(f'<numeric data="{float(np.round(rng.uniform(0, 0.9), 2))!r}" name="elasticity"/>')
  out.append('</custom>')
  out.append('<worldbody>')
  d = rng.normal(size=3)
  d /= np.linalg.norm(d)
  sep = float(rng.uniform(0.12, 0.28))
  for i in range(2):
    pos = np.array([0.0, 0.0, 2.0]) + (0.5 - i) * sep * d
    out.append(f'  <body name="b{i}" pos="{modelgen._f(pos)}" quat="{modelgen._f(modelgen.rand_unit_quat(rng))}">')
    out.append(f'    <freejoint name="root{i}"/>')
    for g in range(int(rng.integers(1, 3))):
      out.append('    ' + geom(i, g))
    out.append('  </body>')
  out.append('</worldbody>')
  out.append('</mujoco>')
  return '\n'.join(out)


def brax_custom(rng, force=False):
  """brax custom numerics that make the joint-frame forces generic: linear/angular constraint
  damping (the positional `_damp` force is zero without it on hinge-only models) and a non-trivial
  `spring_mass_scale` (the pipelines then integrate with `mass ** (1 - scale)`)"""
  c = {}
  if force or rng.random() < 0.5:
    c['constraint_vel_damping'] = float(np.round(rng.uniform(1.0, 30.0), 2))
    c['constraint_ang_damping'] = float(np.round(rng.uniform(0.1, 2.0), 2))
  if rng.random() < 0.4:
    c['spring_mass_scale'] = float(rng.choice([0.3, 0.7]))
  return c or None


def free_model(rng, force_custom=False, **kw):
  opts = dict(roots='free', limits=0.5, actuators=(0, 3), n_links=(1, 5), custom=brax_custom(rng, force_custom))
  opts.update(kw)
  return modelgen.gen_model(rng, **opts)


def synth_contacts(rng, n_links, k, x_i_pos):
  """k synthetic contact rows: random link pairs (world allowed), penetrating and not"""
  rows = []
  for _ in range(k):
    l1 = int(rng.integers(-1, n_links))
    l2 = int(rng.integers(-1, n_links))
    if l1 == -1 and l2 == -1:
      l2 = int(rng.integers(0, n_links))
    nrm = modelgen.rand_unit_vec(rng)
    base = x_i_pos[l1 if l1 >= 0 else l2]
    pos = base + rng.uniform(-0.3, 0.3, size=3)
    dist = float(rng.uniform(-0.05, 0.02)) if rng.random() < 0.8 else 0.0
    rows.append((l1, l2, dist, pos, nrm, float(rng.uniform(0.2, 1.5)), float(np.round(rng.uniform(0, 0.9), 2))))
  return rows


def make_contact(template, rows):
  """a brax Contact pytree with the given rows (all leaves get the leading dimension len(rows))"""
  import jax
  import jax.numpy as jp
  k = len(rows)
  c = jax.tree.map(lambda a: jp.stack([a[0]] * k), template)
  frame = []
  for r in rows:
    n = r[4]
    b = np.cross(n, [1.0, 0, 0]) if abs(n[0]) < 0.9 else np.cross(n, [0, 1.0, 0])
    b /= np.linalg.norm(b)
    frame.append(np.stack([n, b, np.cross(n, b)]))
  fr = jp.asarray(np.stack(frame))
  fric = jp.asarray(np.stack([[r[5]] * c.friction.shape[1] for r in rows]))
  return c.replace(dist=jp.asarray([r[2] for r in rows]), pos=jp.asarray(np.stack([r[3] for r in rows])),
                   frame=fr, friction=fric, elasticity=jp.asarray([r[6] for r in rows]),
                   link_idx=(jp.asarray([r[0] for r in rows]), jp.asarray([r[1] for r in rows])))


_TEMPLATE = {}


def contact_template():
  """one real Contact row (from a two-sphere scene) used as the carrier of synthetic contacts"""
  if 'c' not in _TEMPLATE:
    import jax.numpy as jp
    from brax import contact, kinematics
    from brax.io import mjcf
    xml = two_body_xml(np.random.default_rng(12345))
    sysm = mjcf.loads(xml)
    x, _ = kinematics.forward(sysm, sysm.init_q, jp.zeros(sysm.qd_size()))
    _TEMPLATE['c'] = contact.get(sysm, x)
  return _TEMPLATE['c']


# ----------------------------------------------------------------------------- exact lattice


def int_sys(rng, sysm):
  """the same kinematic structure with small-integer parameters (model and code must agree as
  functions; quaternions need not be unit)"""
  import jax.numpy as jp
  n = sysm.num_links()
  nv = sysm.qd_size()
  I = lambda *shape: jp.asarray(rng.integers(-4, 5, size=shape).astype(np.float64))
  P = lambda *shape: jp.asarray(rng.integers(1, 6, size=shape).astype(np.float64))
  rep = {
      'link.transform.pos': I(n, 3), 'link.transform.rot': I(n, 4),
      'link.joint.pos': I(n, 3), 'link.joint.rot': I(n, 4),
      'link.inertia.transform.pos': I(n, 3), 'link.inertia.transform.rot': I(n, 4),
      'link.inertia.i': I(n, 3, 3), 'link.inertia.mass': P(n), 'link.invweight': P(n),
      'link.constraint_stiffness': I(n), 'link.constraint_vel_damping': I(n),
      'link.constraint_limit_stiffness': I(n), 'link.constraint_ang_damping': I(n),
      'dof.motion.ang': I(nv, 3), 'dof.motion.vel': I(nv, 3), 'dof.armature': P(nv),
      'dof.stiffness': P(nv), 'dof.damping': P(nv), 'dof.invweight': P(nv),
      'gravity': I(3), 'vel_damping': I(), 'ang_damping': I(), 'baumgarte_erp': P(),
      'spring_mass_scale': jp.asarray(0.0), 'spring_inertia_scale': jp.asarray(0.0),
      'joint_scale_ang': P(), 'joint_scale_pos': P(), 'collide_scale': P(),
      'opt.timestep': P(),
  }
  nu = sysm.act_size()
  if nu:
    lo = rng.integers(-6, 0, size=nu).astype(np.float64)
    hi = rng.integers(1, 7, size=nu).astype(np.float64)
    inf = rng.random(nu) < 0.4
    cr = np.stack([np.where(inf, -np.inf, lo), np.where(inf, np.inf, hi)], axis=1)
    inf2 = rng.random(nu) < 0.4
    fr = np.stack([np.where(inf2, -np.inf, 4 * lo), np.where(inf2, np.inf, 4 * hi)], axis=1)
    rep.update({'actuator.ctrl_range': jp.asarray(cr), 'actuator.force_range': jp.asarray(fr),
                'actuator.gain': I(nu), 'actuator.gear': I(nu), 'actuator.bias_q': I(nu),
                'actuator.bias_qd': I(nu)})
  if sysm.dof.limit is not None:
    lo = rng.integers(-6, 0, size=nv).astype(np.float64)
    hi = rng.integers(1, 7, size=nv).astype(np.float64)
    inf = rng.random(nv) < 0.3
    rep['dof.limit'] = (jp.asarray(np.where(inf, -np.inf, lo)), jp.asarray(np.where(inf, np.inf, hi)))
  return sysm.tree_replace(rep)


def lattice_cases(ctx, n_models):
  """integer inputs; equality"""
  _setup()
  import jax
  import jax.numpy as jp
  from brax import actuator, com
  from brax.base import Force, Motion, Transform
  from brax.io import mjcf
  from brax.positional import joints as pjoints
  from brax.positional.base import State as PState
  from brax.spring import joints as sjoints
  from brax.spring.base import State as SState
  rng = np.random.default_rng(ctx.seed + 401)
  lines, expect, what = [], [], []
  hist = {}
  for mi in range(n_models):
    xml, meta = modelgen.gen_model(rng, roots='mixed', actuators=(1, 3), n_links=(1, 6),
                                   limits=(0.5 if mi % 2 else 0.0))
    sysm = mjcf.loads(xml)
    si = int_sys(rng, sysm)
    n, nv, nq = si.num_links(), si.qd_size(), si.q_size()
    hist[meta['link_types']] = hist.get(meta['link_types'], 0) + 1
    st_tokens = wire.sys_tokens(si, 'I')
    Iv = lambda *shape: jp.asarray(rng.integers(-5, 6, size=shape).astype(np.float64))
    TF = lambda: Transform(pos=Iv(n, 3), rot=Iv(n, 4))
    MO = lambda: Motion(ang=Iv(n, 3), vel=Iv(n, 3))
    # --- com.from_world / to_world
    x, xd = TF(), MO()
    fw = jax.jit(lambda x, xd, si=si: com.from_world(si, x, xd))(x, xd)
    lines.append(' '.join(['i.fromworld'] + st_tokens + tf_tokens(x, 'I') + mo_tokens(xd, 'I')))
    expect.append(np.concatenate([np.concatenate([A(fw[0].pos), A(fw[0].rot)], 1).reshape(-1),
                                  np.concatenate([A(fw[1].ang), A(fw[1].vel)], 1).reshape(-1)]))
    what.append(('com.from_world', meta['link_types']))
    tw = jax.jit(lambda x, xd, si=si: com.to_world(si, x, xd))(x, xd)
    lines.append(' '.join(['i.toworld'] + st_tokens + tf_tokens(x, 'I') + mo_tokens(xd, 'I')))
    expect.append(np.concatenate([np.concatenate([A(tw[0].pos), A(tw[0].rot)], 1).reshape(-1),
                                  np.concatenate([A(tw[1].ang), A(tw[1].vel)], 1).reshape(-1)]))
    what.append(('com.to_world', meta['link_types']))
    # --- assembly of spring.joints.resolve with an arbitrary integer joint-frame force:
    #     the leaf functions are replaced by a carrier returning Force(ang=jd.ang, vel=j.pos)
    a_p, a_c, x_i, j, jd = TF(), TF(), TF(), TF(), MO()
    stt = SState(q=jp.zeros(nq), qd=jp.zeros(nv), x=x, xd=xd, contact=None, x_i=x_i, xd_i=xd, j=j, jd=jd,
                 a_p=a_p, a_c=a_c, i_inv=jp.zeros((n, 3, 3)), mass=jp.ones(n))

    def resolve_carrier(stt, si=si):
      saved = (sjoints._free, sjoints._one_dof, sjoints._two_dof, sjoints._three_dof)
      carrier = lambda link, j, jd, dof, tau: Force(ang=jd.ang, vel=j.pos)
      sjoints._free = sjoints._one_dof = sjoints._two_dof = sjoints._three_dof = carrier
      try:
        return sjoints.resolve(si, stt, jp.zeros(si.qd_size()))
      finally:
        sjoints._free, sjoints._one_dof, sjoints._two_dof, sjoints._three_dof = saved
    xf = jax.jit(resolve_carrier)(stt)
    jf_tokens = [str(n)]
    for i in range(n):
      jf_tokens += wire.toks(A(jd.ang)[i], 'I') + wire.toks(A(j.pos)[i], 'I')
    lines.append(' '.join(['i.assemble', str(n)] + [str(int(p)) for p in si.link_parents]
                          + tf_tokens(a_p, 'I') + tf_tokens(a_c, 'I') + tf_tokens(x_i, 'I') + jf_tokens))
    expect.append(np.concatenate([A(xf.ang), A(xf.vel)], 1).reshape(-1))
    what.append(('spring.joints.resolve (assembly, arbitrary jf)', meta['link_types']))
    # --- positional.joints.acceleration_update
    pst = PState(q=jp.zeros(nq), qd=jp.zeros(nv), x=x, xd=xd, contact=None, x_i=x_i, xd_i=xd, j=j, jd=jd,
                 a_p=a_p, a_c=a_c, mass=jp.ones(n))
    tau = jp.asarray(rng.integers(-5, 6, size=nv).astype(np.float64))
    xf2 = jax.jit(lambda pst, tau, si=si: pjoints.acceleration_update(si, pst, tau))(pst, tau)
    lines.append(' '.join(['i.accupd'] + st_tokens + mo_tokens(jd, 'I') + tf_tokens(a_p, 'I')
                          + tf_tokens(a_c, 'I') + tf_tokens(x_i, 'I') + wire.vec_tokens(tau, 'I')))
    expect.append(np.concatenate([A(xf2.ang), A(xf2.vel)], 1).reshape(-1))
    what.append(('positional.joints.acceleration_update', meta['link_types']))
    # --- actuator.to_tau
    if si.act_size():
      act = jp.asarray(rng.integers(-8, 9, size=si.act_size()).astype(np.float64))
      q = jp.asarray(rng.integers(-5, 6, size=nq).astype(np.float64))
      qd = jp.asarray(rng.integers(-5, 6, size=nv).astype(np.float64))
      t = jax.jit(lambda a, q, qd, si=si: actuator.to_tau(si, a, q, qd))(act, q, qd)
      lines.append(' '.join(['i.totau'] + st_tokens + wire.vec_tokens(act, 'I') + wire.vec_tokens(q, 'I')
                            + wire.vec_tokens(qd, 'I')))
      expect.append(A(t).reshape(-1))
      what.append(('actuator.to_tau', meta['link_types']))
  out = C.run_driver(DRIVER, lines)
  dis = []
  for o, e, w, l in zip(out, expect, what, lines):
    if o.startswith('bad'):
      dis.append(dict(what=f'exact-lattice: driver rejected {w[0]} ({o})', shape=w[1])); continue
    got = parse_line(o)
    if got.shape != e.shape or not np.array_equal(got, e):
      dis.append(dict(what=f'exact-lattice: {w[0]} differs from its Lean model', shape=w[1],
                      lean=got.tolist()[:24], real=e.tolist()[:24]))
  return len(lines), dis, hist


# ----------------------------------------------------------------------------- float mode


class Pipe:
  """jitted real functions of one pipeline for one model"""

  def __init__(self, sysm, kind):
    import jax
    from brax import contact
    self.sysm, self.kind = sysm, kind
    if kind == 'spring':
      from brax.spring import pipeline as P
    elif kind == 'positional':
      from brax.positional import pipeline as P
    else:
      from brax.generalized import pipeline as P
    self.P = P
    self.init = jax.jit(lambda q, qd: P.init(sysm, q, qd))

    def step_c(st, a):
      """step, also returning the Contact the step used (or None)"""
      rec = []
      orig = contact.get

      def spy(s, x):
        c = orig(s, x)
        rec.append(c)
        return c
      contact.get = spy
      try:
        out = P.step(sysm, st, a)
      finally:
        contact.get = orig
      return out, (rec[0] if rec else None)
    self.step_c = jax.jit(step_c)
    self.step = lambda st, a: self.step_c(st, a)[0]


def momentum(st):
  m = A(st.mass)[:, None]
  v = A(st.xd_i.vel)
  return (m * v).sum(0), float(np.abs(m * v).sum())


def momentum_history(pipe, st, acts, key, xml):
  """the property's observation over one history; returns (steps checked, worst ratio, failure|None)"""
  import jax.numpy as jp
  sysm = pipe.sysm
  g, dt = A(sysm.gravity), float(sysm.opt.timestep)
  M = float(A(st.mass).sum())
  worst, steps = 0.0, 0
  q0, qd0 = A(st.q).tolist(), A(st.qd).tolist()
  for t in range(len(acts)):
    p0, s0 = momentum(st)
    st = pipe.step(st, jp.asarray(acts[t]))
    p1, s1 = momentum(st)
    if not (np.isfinite(p1).all() and np.isfinite(s1)):
      break                      # the trajectory overflowed: nothing left to observe
    steps += 1
    err = float(np.abs(p1 - p0 - M * g * dt).max())
    ratio = err / (1.0 + s0 + s1)
    worst = max(worst, ratio)
    if ratio > TOL_P:
      return steps, worst, dict(
          key=f'momentum:{pipe.kind}:{key}', what=f'{pipe.kind}.pipeline.step changes the total momentum by {err:.3e} '
          f'(beyond M g dt) at step {t + 1} of a history (scale {1 + s0 + s1:.3e})',
          pipeline=pipe.kind, xml=xml, q=q0, qd=qd0, acts=[list(map(float, a)) for a in acts[:t + 1]], step=t + 1,
          p_before=p0.tolist(), p_after=p1.tolist(), expected=(p0 + M * g * dt).tolist())
  return steps, worst, None


def step_case(pipe, st, act, tag):
  """one float correspondence case of a full pipeline.step: (line, expected vector)"""
  import jax.numpy as jp
  st1, c = pipe.step_c(st, jp.asarray(act))
  rows = contact_rows(c)
  toks = spring_state_tokens(st) if pipe.kind == 'spring' else pos_state_tokens(st)
  line = ' '.join([tag] + wire.sys_tokens(pipe.sysm) + toks + wire.vec_tokens(act) + contact_tokens(rows))
  return line, state_vector(st1), st1, rows


def float_cases(ctx, n_models, n_scenes, hist_len, n_hist_models, seed_offset=0, spec_only=False):
  """float correspondences + the momentum Spec on the same jitted steps"""
  _setup()
  import jax
  import jax.numpy as jp
  from brax import com, contact
  from brax.io import mjcf
  from brax.positional import collisions as pcoll
  from brax.positional import joints as pjoints
  from brax.spring import collisions as scoll
  from brax.spring import joints as sjoints
  rng = np.random.default_rng(ctx.seed + 811 + seed_offset)
  lines, expect, what = [], [], []
  spec_failures = []
  stats = dict(models=[], scenes=0, momentum_steps=0, momentum_worst=0.0, contacts_active=0, contacts_rows=0,
               synthetic_contact_cases=0, histories=0, limit_models=0, actuator_models=0)
  distinct = set()

  def add(line, vec, w):
    lines.append(line); expect.append(np.asarray(vec, dtype=np.float64)); what.append(w)

  specs = []
  for mi in range(n_models):
    if mi % 4 != 3:
      # every other free-rooted model has at least two links and constraint damping
      xml, meta = free_model(rng, force_custom=(mi % 2 == 0), **(dict(n_links=(2, 5)) if mi % 2 == 0 else {}))
    else:
      xml, meta = modelgen.gen_model(rng, roots='mixed', limits=0.5, actuators=(0, 3), n_links=(1, 5),
                                     custom=brax_custom(rng))
    specs.append(('model', xml, meta['link_types'], all(p != -1 or t == 'f' for p, t in zip(meta['parents'], meta['link_types']))))
  for si in range(n_scenes):
    specs.append(('scene', two_body_xml(rng, gravity=(0, 0, -9.81) if si % 2 else (0.3, -0.2, 0.5)), 'ff', True))

  for idx, (what_m, xml, types, free_rooted) in enumerate(specs):
    sysm = mjcf.loads(xml)
    n, nu = sysm.num_links(), sysm.act_size()
    stats['models'].append(types)
    stats['limit_models'] += int(sysm.dof.limit is not None)
    stats['actuator_models'] += int(nu > 0)
    if what_m == 'scene':
      stats['scenes'] += 1
      q = A(sysm.init_q)
      qd = rng.uniform(-0.5, 0.5, size=sysm.qd_size())
      # approach each other along the line of centres
      d = q[7:10] - q[0:3]
      d /= np.linalg.norm(d)
      qd[0:3] += 0.8 * d
      qd[6:9] -= 0.8 * d
    else:
      q, qd = modelgen.rand_state(rng, sysm, q_range=1.5)
    for kind in ('spring', 'positional'):
      pipe = Pipe(sysm, kind)
      st = pipe.init(jp.asarray(q), jp.asarray(qd))
      tag = 'f.sp.step' if kind == 'spring' else 'f.pos.step'
      if not spec_only:
        # ---- full step, from the initial state and from a state two real steps later
        cur = st
        for k in range(2):
          act = rng.uniform(-1.5, 1.5, size=nu)
          line, vec, nxt, rows = step_case(pipe, cur, act, tag)
          add(line, vec, (f'{kind}.pipeline.step', types, xml, A(cur.q).tolist(), A(cur.qd).tolist(), act.tolist()))
          stats['contacts_rows'] += len(rows)
          stats['contacts_active'] += sum(1 for r in rows if r[2] < 0)
          distinct.add((kind, 'step', types, len(rows)))
          cur = pipe.step(nxt, jp.asarray(rng.uniform(-1.5, 1.5, size=nu)))
        # ---- sub-functions on the state after the warm-up steps
        sub = idx < ctx.budget(1, 10 ** 9)
        if sub or what_m == 'scene':
          if not sub:
            pass
          elif kind == 'spring':
            tau = rng.uniform(-2, 2, size=sysm.qd_size())
            xf = jax.jit(lambda s, t: sjoints.resolve(sysm, s, t))(cur, jp.asarray(tau))
            add(' '.join(['f.sp.resolve'] + wire.sys_tokens(sysm) + spring_state_tokens(cur) + wire.vec_tokens(tau)),
                np.concatenate([A(xf.ang), A(xf.vel)], 1).reshape(-1), ('spring.joints.resolve', types, xml))
            ii = jax.jit(lambda x: com.inv_inertia(sysm, x))(cur.x)
            add(' '.join(['f.invinertia'] + wire.sys_tokens(sysm) + tf_tokens(cur.x)), A(ii).reshape(-1),
                ('com.inv_inertia', types, xml))
          else:
            xi = jax.jit(lambda s: pjoints.position_update(sysm, s))(cur)
            add(' '.join(['f.pos.posupd'] + wire.sys_tokens(sysm) + pos_state_tokens(cur)),
                np.concatenate([A(xi.pos), A(xi.rot)], 1).reshape(-1), ('positional.joints.position_update', types, xml))
          # ---- collision resolvers on synthetic contact lists (contacts are data)
          k = int(rng.integers(1, 5))
          rows = synth_contacts(rng, n, k, A(cur.x_i.pos))
          cc = make_contact(contact_template(), rows)
          stats['synthetic_contact_cases'] += 1
          if kind == 'spring':
            def coll(s, c):
              orig = contact.get
              contact.get = lambda *_: c
              try:
                return scoll.resolve(sysm, s)
              finally:
                contact.get = orig
            xdv = jax.jit(coll)(cur, cc)
            add(' '.join(['f.sp.collide'] + wire.sys_tokens(sysm) + spring_state_tokens(cur) + contact_tokens(rows)),
                np.concatenate([A(xdv.ang), A(xdv.vel)], 1).reshape(-1), ('spring.collisions.resolve (synthetic contacts)', types, xml))
          else:
            prev = st.x_i
            xi, dl = jax.jit(lambda s, p, c: pcoll.resolve_position(sysm, s, p, c))(cur, prev, cc)
            add(' '.join(['f.pos.respos'] + wire.sys_tokens(sysm) + tf_tokens(cur.x) + tf_tokens(cur.x_i)
                         + tf_tokens(prev) + contact_tokens(rows)),
                np.concatenate([np.concatenate([A(xi.pos), A(xi.rot)], 1).reshape(-1), A(dl).reshape(-1)]),
                ('positional.collisions.resolve_position (synthetic contacts)', types, xml))
            xq = st.xd_i
            dlam = rng.uniform(-0.01, 0.01, size=k)
            xdv = jax.jit(lambda s, p, c, d: pcoll.resolve_velocity(sysm, s, p, c, d))(cur, xq, cc, jp.asarray(dlam))
            add(' '.join(['f.pos.resvel'] + wire.sys_tokens(sysm) + tf_tokens(cur.x) + tf_tokens(cur.x_i)
                         + mo_tokens(cur.xd_i) + mo_tokens(xq) + contact_tokens(rows) + wire.vec_tokens(dlam)),
                np.concatenate([A(xdv.ang), A(xdv.vel)], 1).reshape(-1),
                ('positional.collisions.resolve_velocity (synthetic contacts)', types, xml))
      # ---- Spec: momentum over a history (free-rooted models and two-body scenes only)
      if free_rooted and stats['histories'] < 2 * n_hist_models:
        acts = rng.uniform(-1.5, 1.5, size=(hist_len, nu))
        steps, worst, fail = momentum_history(pipe, st, acts, f'{what_m}:{types}', xml)
        stats['histories'] += 1
        stats['momentum_steps'] += steps
        stats['momentum_worst'] = max(stats['momentum_worst'], worst)
        if fail:
          spec_failures.append(fail)
  disagreements = []
  if lines:
    out = C.run_driver(DRIVER, lines)
    for o, e, w in zip(out, expect, what):
      if o.startswith('bad'):
        disagreements.append(dict(what=f'float: driver rejected {w[0]} ({o})', shape=w[1], xml=w[2])); continue
      got = parse_line(o)
      if not close(got, e):
        bad = int(np.argmax(np.abs(got - e) / (1 + np.abs(e)))) if got.shape == e.shape else -1
        disagreements.append(dict(what=f'float: {w[0]} differs from its Lean model', shape=w[1], xml=w[2],
                                  index=bad, lean=(float(got[bad]) if bad >= 0 else None),
                                  real=(float(e[bad]) if bad >= 0 else None), extra=list(w[3:])))
  return len(lines), disagreements, spec_failures, stats, distinct


# ----------------------------------------------------------------------------- rest case (Spec)


def stack_class(meta):
  """structural class of a generator model for the rest clause.

  'supported'  : every link is free, has one joint, or has a stack with pairwise orthogonal axes
                 made of hinges only, slides only, or slides followed by one hinge (the layouts
                 modelgen offers as `one_kind` / `slides_then_hinge` with `orthogonal=True`);
  'unsupported': some stack is outside that class (non-orthogonal axes, or a slide after a hinge /
                 several hinges with a slide);
  additionally 'lefthanded' is set when a three-hinge stack has a left-handed axis triple and its
  middle joint is limited (defect D7 of the positional joint limits)."""
  cls, lefthanded = 'supported', False
  for b in meta['bodies']:
    js = b['joints']
    if len(js) < 2:
      continue
    ax = np.array([j['axis'] for j in js])
    orth = all(abs(float(ax[i] @ ax[k])) < 1e-9 for i in range(len(js)) for k in range(i))
    kinds = ''.join(j['type'][0] for j in js)
    ok_kinds = kinds in ('hh', 'hhh', 'ss', 'sss', 'sh', 'ssh')
    if not (orth and ok_kinds):
      cls = 'unsupported'
    if kinds == 'hhh' and np.linalg.det(ax) < 0 and 'range' in js[1]:
      lefthanded = True
  return cls, lefthanded


def rest_q(rng, sysm):
  """|q| <= 1 inside the joint limits, unit root quaternions"""
  q, k = [], 0
  lim = sysm.dof.limit
  for t in sysm.link_types:
    if t == 'f':
      q += list(rng.uniform(-1, 1, size=3)) + list(modelgen.rand_unit_quat(rng))
      k += 6
    else:
      for _ in range(int(t)):
        lo, hi = -1.0, 1.0
        if lim is not None:
          lo, hi = max(lo, float(lim[0][k])), min(hi, float(lim[1][k]))
        # stay 1e-3 inside so that the limit branch is not within round-off
        q.append(float(rng.uniform(lo + 1e-3 * (hi - lo), hi - 1e-3 * (hi - lo))))
        k += 1
  return np.array(q, dtype=np.float64)


def rest_deviation(kind, sysm, q):
  """one step from (q, qd = 0) with zero control: max change of x / x_i and max |xd|, |xd_i|, |qd|"""
  import jax.numpy as jp
  pipe = Pipe(sysm, kind)
  st = pipe.init(jp.asarray(q), jp.zeros(sysm.qd_size()))
  st1 = pipe.step(st, jp.zeros(sysm.act_size()))
  dev = max(float(np.abs(A(st1.x.pos) - A(st.x.pos)).max()), float(np.abs(A(st1.x.rot) - A(st.x.rot)).max()),
            float(np.abs(A(st1.xd.vel)).max()), float(np.abs(A(st1.xd.ang)).max()),
            float(np.abs(A(st1.qd)).max()) if sysm.qd_size() else 0.0)
  if kind != 'generalized':
    dev = max(dev, float(np.abs(A(st1.x_i.pos) - A(st.x_i.pos)).max()), float(np.abs(A(st1.xd_i.vel)).max()),
              float(np.abs(A(st1.xd_i.ang)).max()))
  return dev if np.isfinite(dev) else float('inf')


REST_OPTS = dict(actuators=(0, 0), stiffness=0.0, gravity=(0.0, 0.0, 0.0), limits=0.6, n_links=(1, 4), limit_excl_zero=0.5)


def rest_cases(ctx, n_supported, n_any, seed_offset=0):
  """the rest clause on all three pipelines; returns (cases, spec_failures, stats)"""
  _setup()
  from brax.io import mjcf
  rng = np.random.default_rng(ctx.seed + 977 + seed_offset)
  fails, n_cases = [], 0
  stats = dict(rest_models=[], rest_worst_supported=0.0, rest_outside_class_failing=0, rest_outside_class_ok=0)
  plans = []
  for i in range(n_supported):
    kinds = ['one_kind', 'slides_then_hinge', 'hinge'][i % 3]
    plans.append(dict(roots='mixed', stack=(1, 3), kinds=kinds, orthogonal=True))
  # single limited slides / hinges whose range may exclude zero (1-dof joint-limit code of each pipeline)
  plans.append(dict(roots='mixed', stack=(1, 1), kinds='slide', limits=1.0, n_links=(2, 3), limit_excl_zero=1.0))
  plans.append(dict(roots='mixed', stack=(1, 1), kinds='hinge', limits=1.0, n_links=(2, 3), limit_excl_zero=1.0))
  for i in range(n_any):
    plans.append(dict(roots='mixed', stack=(1, 3), kinds='mixed', orthogonal=False))
  for opts in plans:
    o = dict(REST_OPTS)
    o.update(opts)
    xml, meta = modelgen.gen_model(rng, **o)
    sysm = mjcf.loads(xml)
    q = rest_q(rng, sysm)
    cls, lefthanded = stack_class(meta)
    stats['rest_models'].append(f'{meta["link_types"]}:{cls}{":lh" if lefthanded else ""}')
    for kind in ('spring', 'positional', 'generalized'):
      dev = rest_deviation(kind, sysm, q)
      n_cases += 1
      if dev <= TOL_REST:
        if cls == 'supported':
          stats['rest_worst_supported'] = max(stats['rest_worst_supported'], dev)
        else:
          stats['rest_outside_class_ok'] += 1
        continue
      if cls == 'unsupported' and kind != 'generalized':
        key = f'rest:{kind}:unsupported-stack'
        stats['rest_outside_class_failing'] += 1
      elif kind == 'positional' and lefthanded:
        key = 'rest:positional:lefthanded-3hinge-limit'     # defect D7 (fixed by f5f04c1) is back
      else:
        key = f'rest:{kind}:{meta["link_types"]}'
      fails.append(dict(key=key, what=f'{kind}.pipeline.step moves a system at rest (no gravity, control, contact; '
                        f'q inside limits): deviation {dev:.3e} after one step, link types {meta["link_types"]}, '
                        f'stack class {cls}', pipeline=kind, xml=xml, q=q.tolist(), deviation=dev, rest=True))
  return n_cases, fails, stats


# ----------------------------------------------------------------------------- API


def correspond(ctx):
  n_lat, dis_lat, hist = lattice_cases(ctx, ctx.budget(3, 16))
  n_flt, dis_flt, fails, stats, distinct = float_cases(
      ctx, ctx.budget(2, 10), ctx.budget(1, 4), 200, ctx.budget(3, 14))
  n_rest, fails_rest, rstats = rest_cases(ctx, ctx.budget(2, 8), ctx.budget(1, 4))
  stats.update(rstats)
  seen, uniq = set(), []
  for f in fails + fails_rest:           # one replay per key
    if f['key'] not in seen:
      seen.add(f['key']); uniq.append(f)
  return dict(
      evaluations=n_lat + n_flt + n_rest + stats['momentum_steps'],
      distinct_nontrivial=len(hist) + len(distinct) + len(set(stats['rest_models'])),
      rule='exact-lattice: generator forests (1-6 links) with integer parameters/state, equality of com.from_world/'
           'to_world, spring joints.resolve assembly with an arbitrary integer joint-frame force, positional '
           'acceleration_update, actuator.to_tau; float (1e-9 rel.): full spring/positional pipeline.step on '
           'free-rooted and mixed-root generator models (limits, actuators, states after real warm-up steps) and '
           'two-body sphere/capsule collision scenes with the contacts the real step used, collision resolvers on '
           'synthetic contact lists (1-4 rows, world and multi-body rows); Spec: momentum at every step of 200-step '
           'histories with random controls, rest case in three pipelines; distinct = distinct (link types) shapes of '
           'the lattice cases + distinct (pipeline, op, link types, #contacts) float cases + distinct rest models',
      samples=[dict(lattice_link_types=sorted(hist)[:3], float_models=stats['models'][:4],
                    momentum_worst_ratio=stats['momentum_worst'])],
      disagreements=dis_lat + dis_flt, spec_failures=uniq,
      trusted_base=['correspondence harness corr_C04.py (sampled inputs; exact for integer lattices, 1e-9 for float64)',
                    'mjx.collision / contact.get: contacts enter the model as data (C10 models the geometry)',
                    'kinematics.inverse: a parameter of the step models (C08 models it)',
                    'scan.link_types: grouped code transcribed and proved equal to the per-link slicing (Layer B stage 2, Props/C01.scanLinkTypes_coded_eq_slices); transcription tied exhaustively in the C01 check',
                    'jax.ops.segment_sum, take(mode=wrap) semantics as stated in DESIGN.md 3 (re-verified here by the '
                    'exact-lattice cases)'],
      assumptions=['IEEE round-off not modelled: theorems over an ordered field, "to round-off" is exact equality',
                   'sys.enable_fluid = False; vel_damping = 0 enters as exp(vel_damping*dt) = 1',
                   'momentum uses state.mass = link mass ** (1 - spring_mass_scale), the mass the pipelines integrate with'],
      explanation='assembly functions tied exactly, whole steps to 1e-9; theorems in Props/C04.lean hold for arbitrary '
                  'joint-frame forces / impulses, every forest and every control history',
      extra=dict(lattice_link_types=hist, lattice_cases=n_lat, float_cases=n_flt, rest_cases=n_rest, **stats))


def search(ctx, broken, corr):
  """the Spec on the real code over the property's quantifier (budgeted)"""
  _, _, fails, _, _ = float_cases(ctx, ctx.budget(3, 30), ctx.budget(1, 10), 200, 10 ** 9, seed_offset=5000,
                                  spec_only=True)
  _, fails_rest, _ = rest_cases(ctx, ctx.budget(2, 20), ctx.budget(0, 6), seed_offset=5000)
  seen, uniq = set(), []
  for f in fails + fails_rest:
    if f['key'] not in seen:
      seen.add(f['key']); uniq.append(f)
  return uniq


def _replay_case(rp):
  _setup()
  import jax.numpy as jp
  from brax.io import mjcf
  sysm = mjcf.loads(rp['xml'])
  if rp.get('rest'):
    dev = rest_deviation(rp['pipeline'], sysm, np.array(rp['q']))
    return dev <= TOL_REST, f'{rp["pipeline"]}: deviation from rest after one step {dev:.3e} (tolerance {TOL_REST})'
  pipe = Pipe(sysm, rp['pipeline'])
  st = pipe.init(jp.asarray(rp['q']), jp.asarray(rp['qd']))
  acts = [np.array(a, dtype=np.float64) for a in rp['acts']]
  steps, worst, fail = momentum_history(pipe, st, acts, 'replay', rp['xml'])
  return fail is None, (f'{rp["pipeline"]}: worst |P\' - P - M g dt| / scale over {steps} steps = {worst:.3e} '
                        f'(tolerance {TOL_P})')


def replay(ctx, rp):
  if rp.get('kind') != 'failing-input':
    return True, f'replay names broken obligations only: {rp.get("broken")}'
  return _replay_case(rp)


def reproduce_known(ctx, entry):
  """re-run a listed known finding (entries carry the same fields as a replay)"""
  if 'xml' not in entry:
    return True
  ok, _ = _replay_case(entry)
  return not ok
