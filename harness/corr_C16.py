"""C16 — bundled environments honour the Env contract and stay numerically finite.

Proof content (lean/Brax/Props/C16.lean): per-environment observation length for all nq/nv/nb,
reset done = 0, the decision logic of every termination rule, reward decomposition, action
rescaling stays inside the actuator control range.

This file is the tie to /repo (DESIGN.md 2.2 Tie B) and the evaluation of the property's own
statement (the Spec) on the real code:

* every selected (environment, native backend) pair is built with `envs.get_environment`, wrapped
  with `training.wrap`, `reset`/`step` are jitted once, and a batch of 8 action sequences in [-1, 1]
  (4 uniform, 4 bang-bang) is rolled out.  Each pair runs in its own process (x64 is a process-wide
  jax switch; `inverted_double_pendulum` only runs in float32, see notes/C16.md).
* Spec on the implementation, at every step: obs shape == observation_size, action_size accepted,
  done = 0 / reward = 0 / metrics = 0 at reset, done in {0,1}, everything finite, link quaternions
  unit, determinism (second roll-out with the same keys/actions is bit-identical), the wrappers
  hand through the inner step, and the documented per-environment contract (observation layout,
  termination rule, reward = sum of its metric terms) recomputed in numpy.
* Model <-> implementation: the Lean model (Driver/C16.lean, Float) is fed with the
  implementation's own pipeline state before/after the step and the action and must reproduce
  obs, reward, done and the metrics the step writes.
"""
from __future__ import annotations

import json
import os
import pickle
import subprocess
import sys
import time

import numpy as np

HERE = os.path.dirname(os.path.abspath(__file__))
sys.path.insert(0, HERE)
import check as C  # noqa: E402

NATIVE = ('generalized', 'spring', 'positional')
NAMES = ['ant', 'halfcheetah', 'hopper', 'humanoid', 'humanoidstandup', 'inverted_pendulum',
         'inverted_double_pendulum', 'pusher', 'reacher', 'swimmer', 'walker2d']
# native backends each constructor accepts (read off brax/envs/*.py: only swimmer restricts them);
# the thorough tier also checks that the pairs not listed here are refused with ValueError
SUPPORTED = {n: (('generalized',) if n == 'swimmer' else NATIVE) for n in NAMES}
# environments whose step does not type-check under jax_enable_x64 (done is a jp.float32 literal,
# so EpisodeWrapper's scan carry changes dtype): run in brax's native float32
F32_ONLY = {'inverted_double_pendulum'}
D6_KEY = 'fluid.force:clip-a_min'
# D3 (DESIGN.md section 6, property C06): positional/collisions.resolve_position returns early, without
# renormalising x.rot, for systems that have no contact pair
D3_KEY = 'positional.resolve_position:no-contact-skips-normalise'

METRICS = {
    'ant': ['reward_forward', 'reward_survive', 'reward_ctrl', 'reward_contact', 'x_position', 'y_position',
            'distance_from_origin', 'x_velocity', 'y_velocity', 'forward_reward'],
    'halfcheetah': ['x_position', 'x_velocity', 'reward_run', 'reward_ctrl'],
    'hopper': ['reward_forward', 'reward_ctrl', 'reward_healthy', 'x_position', 'x_velocity'],
    'walker2d': ['reward_forward', 'reward_ctrl', 'reward_healthy', 'x_position', 'x_velocity'],
    'swimmer': ['reward_fwd', 'reward_ctrl', 'x_position', 'y_position', 'distance_from_origin', 'x_velocity',
                'y_velocity'],
    'humanoid': ['forward_reward', 'reward_linvel', 'reward_quadctrl', 'reward_alive', 'x_position', 'y_position',
                 'distance_from_origin', 'x_velocity', 'y_velocity'],
    'humanoidstandup': ['reward_linup', 'reward_quadctrl'],
    'reacher': ['reward_dist', 'reward_ctrl'],
    'pusher': ['reward_near', 'reward_dist', 'reward_ctrl'],
    'inverted_pendulum': [], 'inverted_double_pendulum': [],
}
# number of metric keys `reset` creates (swimmer also zeroes `forward_reward`, never written again)
N_RESET_METRICS = {k: len(v) for k, v in METRICS.items()}
N_RESET_METRICS['swimmer'] = 8
SCALES_ACTION = {'inverted_pendulum', 'pusher', 'humanoid', 'humanoidstandup'}
HUMANOIDS = {'humanoid', 'humanoidstandup'}


# ----------------------------------------------------------------------------- wire helpers


def hexs(arr):
  b = np.ascontiguousarray(np.asarray(arr, dtype=np.float64).reshape(-1)).astype('>f8').tobytes().hex()
  return ['x' + b[i:i + 16] for i in range(0, len(b), 16)]


def vec(arr):
  a = np.asarray(arr, dtype=np.float64).reshape(-1)
  return [str(len(a))] + hexs(a)


def tok(x):
  x = float(x)
  if np.isinf(x):
    return 'inf' if x > 0 else '-inf'
  return hexs([x])[0]


def hex2f(t):
  import struct
  return struct.unpack('>d', bytes.fromhex(t[1:]))[0]


def state_tokens(ps):
  q, qd, xp, xr, xa, xv = ps
  nb = xp.shape[0]
  return (vec(q) + vec(qd) + [str(nb)] + hexs(np.concatenate([xp, xr], axis=1))
          + [str(nb)] + hexs(np.concatenate([xa, xv], axis=1)))


def parse_out(line):
  t = line.split()
  n = int(t[0])
  obs = np.array([hex2f(v) for v in t[1:1 + n]])
  reward, done = hex2f(t[1 + n]), hex2f(t[2 + n])
  m = int(t[3 + n])
  met = np.array([hex2f(v) for v in t[4 + n:4 + n + m]])
  if len(t) != 4 + n + m:
    raise RuntimeError('driver output malformed: ' + line[:80])
  return obs, reward, done, met


# ----------------------------------------------------------------------------- env configuration


def env_cfg(env, name, backend):
  """the implementation's own constants (constructor arguments, dt, static sys data)"""
  P = dict(dt=float(env.dt))
  g = lambda a: getattr(env, a)
  if name == 'ant':
    P.update(ctrlW=g('_ctrl_cost_weight'), healthyR=g('_healthy_reward'), terminate=g('_terminate_when_unhealthy'),
             z=tuple(g('_healthy_z_range')), exclude=g('_exclude_current_positions_from_observation'))
  elif name in ('halfcheetah', 'swimmer'):
    P.update(fwdW=g('_forward_reward_weight'), ctrlW=g('_ctrl_cost_weight'),
             exclude=g('_exclude_current_positions_from_observation'))
  elif name in ('hopper', 'walker2d'):
    P.update(fwdW=g('_forward_reward_weight'), ctrlW=g('_ctrl_cost_weight'), healthyR=g('_healthy_reward'),
             terminate=g('_terminate_when_unhealthy'), z=tuple(g('_healthy_z_range')),
             ang=tuple(g('_healthy_angle_range')), exclude=g('_exclude_current_positions_from_observation'))
    if name == 'hopper':
      P.update(st=tuple(g('_healthy_state_range')))
  elif name == 'humanoid':
    P.update(fwdW=g('_forward_reward_weight'), ctrlW=g('_ctrl_cost_weight'), healthyR=g('_healthy_reward'),
             terminate=g('_terminate_when_unhealthy'), z=tuple(g('_healthy_z_range')),
             exclude=g('_exclude_current_positions_from_observation'))
  if name in SCALES_ACTION:
    P['rng'] = np.asarray(env.sys.actuator.ctrl_range, dtype=np.float64)
  if name in HUMANOIDS:
    it = env.sys.link.inertia
    ii = np.asarray(it.i, dtype=np.float64)
    mass = np.asarray(it.mass, dtype=np.float64)
    if backend in ('spring', 'positional'):
      # `_com`: diag(diagonal(i) ** (1 - spring_inertia_scale)), mass ** (1 - spring_mass_scale)
      dd = np.stack([np.diagonal(m) for m in ii]) ** (1.0 - float(env.sys.spring_inertia_scale))
      ii = np.stack([np.diag(r) for r in dd])
      mass = mass ** (1.0 - float(env.sys.spring_mass_scale))
    P.update(ipos=np.asarray(it.transform.pos, dtype=np.float64), irot=np.asarray(it.transform.rot, dtype=np.float64),
             ii=ii, mass=mass)
  if name == 'pusher':
    P.update(ipos=np.asarray(env.sys.link.inertia.transform.pos, dtype=np.float64),
             tips=int(env._tips_arm_idx), object=int(env._object_idx), goal=int(env._goal_idx))
  return P


def cfg_tokens(name, P):
  b = lambda v: '1' if v else '0'
  rng = lambda: [str(len(P['rng']))] + hexs(P['rng'])
  def inertia():
    n = len(P['mass'])
    t = [str(n)]
    for k in range(n):
      t += hexs(P['ipos'][k]) + hexs(P['irot'][k]) + hexs(P['ii'][k]) + hexs([P['mass'][k]])
    return t
  if name == 'ant':
    return [tok(P['ctrlW']), tok(P['healthyR']), b(P['terminate']), tok(P['z'][0]), tok(P['z'][1]), b(P['exclude']),
            tok(P['dt'])]
  if name in ('halfcheetah', 'swimmer'):
    return [tok(P['fwdW']), tok(P['ctrlW']), b(P['exclude']), tok(P['dt'])]
  if name == 'hopper':
    return [tok(P['fwdW']), tok(P['ctrlW']), tok(P['healthyR']), b(P['terminate']), tok(P['st'][0]), tok(P['st'][1]),
            tok(P['z'][0]), tok(P['z'][1]), tok(P['ang'][0]), tok(P['ang'][1]), b(P['exclude']), tok(P['dt'])]
  if name == 'walker2d':
    return [tok(P['fwdW']), tok(P['ctrlW']), tok(P['healthyR']), b(P['terminate']), tok(P['z'][0]), tok(P['z'][1]),
            tok(P['ang'][0]), tok(P['ang'][1]), b(P['exclude']), tok(P['dt'])]
  if name == 'humanoid':
    return [tok(P['fwdW']), tok(P['ctrlW']), tok(P['healthyR']), b(P['terminate']), tok(P['z'][0]), tok(P['z'][1]),
            b(P['exclude']), tok(P['dt'])] + inertia() + rng()
  if name == 'humanoidstandup':
    return [tok(P['dt'])] + inertia() + rng()
  if name == 'pusher':
    return [str(len(P['ipos']))] + hexs(P['ipos']) + [str(P['tips']), str(P['object']), str(P['goal'])] + rng()
  return []


# ----------------------------------------------------------------------------- documented contract (numpy)


def _rot(v, q):
  """math.rotate"""
  s, u = q[0], q[1:]
  return 2 * np.dot(u, v) * u + (s * s - np.dot(u, u)) * v + 2 * s * np.cross(u, v)


def scale_np(P, act):
  lo, hi = P['rng'][:, 0], P['rng'][:, 1]
  return (act + 1) * (hi - lo) * 0.5 + lo


def spec_obs_size(name, P, nq, nv, nb):
  ex = P.get('exclude', True)
  return {
      'ant': (nq - 2 if ex else nq) + nv, 'swimmer': (nq - 2 if ex else nq) + nv,
      'halfcheetah': (nq - 1 if ex else nq) + nv, 'hopper': (nq - 1 if ex else nq) + nv,
      'walker2d': (nq - 1 if ex else nq) + nv,
      'humanoid': (nq - 2 if ex else nq) + nv + 16 * nb + nv, 'humanoidstandup': nq - 2 + nv + 16 * nb + nv,
      'inverted_pendulum': nq + nv, 'inverted_double_pendulum': 1 + 2 * (nq - 1) + nv,
      'reacher': 4 + (nq - 2) + 2 + 3, 'pusher': 7 + 7 + 9}[name]


def spec_step(name, P, r, tol):
  """the documented per-environment contract recomputed from the implementation's own pipeline
  state; returns [(key suffix, message)] of contradictions.  r: s0, s (q, qd, xpos, xrot, xang, xvel),
  act, obs, reward, done, met (dict), qfrc"""
  out = []
  q0, _, xp0, xr0, _, _ = r['s0']
  q, qd, xp, xr, xa, xv = r['s']
  obs, act, met = r['obs'], r['act'], r['met']
  dt = P['dt']
  def close(a, b):
    a, b = np.asarray(a, dtype=np.float64), np.asarray(b, dtype=np.float64)
    return a.shape == b.shape and bool(np.all(np.abs(a - b) <= tol * (1 + np.abs(b))))
  def want(cond, key, msg):
    if not cond:
      out.append((key, msg))
  nq, nv, nb = len(q), len(qd), len(xp)
  want(len(obs) == spec_obs_size(name, P, nq, nv, nb), 'obs-length',
       f'observation has {len(obs)} entries, the layout formula gives {spec_obs_size(name, P, nq, nv, nb)}')
  thr = lambda v: np.asarray(v, dtype=q.dtype)   # thresholds compare in the array dtype, as in jax
  clipv = np.clip(qd, -10, 10)
  ex = P.get('exclude', True)
  done_want = 0.0
  # ---- observation layout
  if name in ('ant', 'swimmer'):
    want(close(obs, np.concatenate([q[2:] if ex else q, qd])), 'obs-layout', 'obs != concat(q[2:], qd)')
  elif name == 'halfcheetah':
    want(close(obs, np.concatenate([q[1:] if ex else q, qd])), 'obs-layout', 'obs != concat(q[1:], qd)')
  elif name in ('hopper', 'walker2d'):
    pos = q.copy(); pos[1] = xp[0, 2]
    want(close(obs, np.concatenate([pos[1:] if ex else pos, clipv])), 'obs-layout',
         'obs != concat(q with q[1]=torso z, [1:], clip(qd, -10, 10))')
  elif name == 'inverted_pendulum':
    want(close(obs, np.concatenate([q, qd])), 'obs-layout', 'obs != concat(q, qd)')
  elif name == 'inverted_double_pendulum':
    want(close(obs, np.concatenate([q[:1], np.sin(q[1:]), np.cos(q[1:]), clipv])), 'obs-layout',
         'obs != concat(q[:1], sin(q[1:]), cos(q[1:]), clip(qd, -10, 10))')
  elif name == 'reacher':
    arm = np.array([0.11, 0, 0])
    tip = xp[1] + _rot(arm, xr[1])
    tv = xv[1] - np.cross(arm, xa[1])
    want(close(obs, np.concatenate([np.cos(q[:2]), np.sin(q[:2]), q[2:], tv[:2], tip - xp[2]])), 'obs-layout',
         'obs != concat(cos, sin, target q, tip velocity xy, tip - target)')
  elif name == 'pusher':
    cp = lambda X, R, i: X[i] + _rot(P['ipos'][i], R[i])
    want(close(obs, np.concatenate([q[:7], qd[:7], cp(xp, xr, P['tips']), cp(xp, xr, P['object']),
                                    cp(xp, xr, P['goal'])])), 'obs-layout',
         'obs != concat(q[:7], qd[:7], com of tips arm, object, goal)')
  elif name in HUMANOIDS:
    pre = q[2:] if ex else q
    n0 = len(pre) + nv
    want(close(obs[:n0], np.concatenate([pre, qd])), 'obs-layout', 'obs prefix != concat(q[2:], qd)')
    if len(obs) == n0 + 16 * nb + nv:
      ci = obs[n0:n0 + 10 * nb].reshape(nb, 10)
      cv = obs[n0 + 10 * nb:n0 + 16 * nb].reshape(nb, 6)
      want(close(ci[:, 9], P['mass']), 'obs-layout', 'last column of the com_inertia block is not the link mass')
      want(close(cv[:, 3:], xa), 'obs-layout', 'angular part of the com_velocity block is not xd.ang')
      want(close(obs[n0 + 16 * nb:], r['qfrc']), 'obs-layout', 'obs suffix is not actuator.to_tau(scaled action)')
  # ---- termination rule
  z = xp[0, 2] if nb else 0.0
  if name == 'inverted_pendulum':
    done_want = float(np.abs(q[1]) > thr(0.2))
  elif name == 'inverted_double_pendulum':
    done_want = float(xp[2, 2] + thr(0.6) <= 1)
  elif name in ('hopper', 'walker2d'):
    h = bool(thr(P['z'][0]) < z < thr(P['z'][1])) and bool(thr(P['ang'][0]) < q[2] < thr(P['ang'][1]))
    if name == 'hopper':
      sv = np.concatenate([q[2:], qd])
      h = h and bool(np.all((thr(P['st'][0]) < sv) & (sv < thr(P['st'][1]))))
    done_want = (0.0 if h else 1.0) if P['terminate'] else 0.0
    hr_want = P['healthyR'] if P['terminate'] else P['healthyR'] * float(h)
  elif name in ('ant', 'humanoid'):
    h = bool(thr(P['z'][0]) <= z <= thr(P['z'][1]))
    done_want = (0.0 if h else 1.0) if P['terminate'] else 0.0
    hr_want = P['healthyR'] if P['terminate'] else P['healthyR'] * float(h)
  want(float(r['done']) == done_want, 'done-rule',
       f'done = {float(r["done"])} but the documented termination rule gives {done_want} ('
       + {'inverted_pendulum': f'pole angle q[1] = {float(q[1]) if nq > 1 else None!r}, limit 0.2',
          'inverted_double_pendulum': f'link 2 z + 0.6 = {float(xp[2, 2]) + 0.6 if nb > 2 else None!r}, limit 1'}.get(
              name, f'torso z = {float(z)!r}' + (f', q[2] = {float(q[2])!r}' if nq > 2 else '')
              + f', ranges {[P.get(k) for k in ("z", "ang", "st") if k in P]}') + ')')
  # ---- reward = sum of its documented terms, and the simple terms themselves
  rew = float(r['reward'])
  M = {k: float(v) for k, v in met.items()}
  sq = lambda a: float(np.sum(np.square(np.asarray(a, dtype=np.float64))))
  if name == 'ant':
    want(close(rew, M['reward_forward'] + M['reward_survive'] + M['reward_ctrl'] + M['reward_contact']), 'reward-sum',
         'reward != forward + survive + ctrl + contact')
    want(close(M['reward_forward'], (xp[0, 0] - xp0[0, 0]) / dt), 'reward-term', 'reward_forward != dx/dt')
    want(close(M['reward_ctrl'], -P['ctrlW'] * sq(act)), 'reward-term', 'reward_ctrl != -w*sum(a^2)')
    want(close(M['reward_survive'], hr_want), 'reward-term', 'reward_survive is not the healthy reward')
  elif name in ('halfcheetah', 'swimmer'):
    kf = 'reward_run' if name == 'halfcheetah' else 'reward_fwd'
    x1, x0 = (xp[0, 0], xp0[0, 0]) if name == 'halfcheetah' else (q[0], q0[0])
    want(close(rew, M[kf] + M['reward_ctrl']), 'reward-sum', 'reward != forward + ctrl')
    want(close(M[kf], P['fwdW'] * (x1 - x0) / dt), 'reward-term', 'forward reward != w*dx/dt')
    want(close(M['reward_ctrl'], -P['ctrlW'] * sq(act)), 'reward-term', 'reward_ctrl != -w*sum(a^2)')
  elif name in ('hopper', 'walker2d'):
    want(close(rew, M['reward_forward'] + M['reward_healthy'] + M['reward_ctrl']), 'reward-sum',
         'reward != forward + healthy + ctrl')
    want(close(M['reward_forward'], P['fwdW'] * (xp[0, 0] - xp0[0, 0]) / dt), 'reward-term', 'reward_forward != w*dx/dt')
    want(close(M['reward_ctrl'], -P['ctrlW'] * sq(act)), 'reward-term', 'reward_ctrl != -w*sum(a^2)')
    want(close(M['reward_healthy'], hr_want), 'reward-term', 'reward_healthy is not the healthy reward')
  elif name == 'humanoid':
    want(close(rew, M['reward_linvel'] + M['reward_alive'] + M['reward_quadctrl']), 'reward-sum',
         'reward != linvel + alive + quadctrl')
    want(close(M['reward_quadctrl'], -P['ctrlW'] * sq(scale_np(P, act))), 'reward-term',
         'reward_quadctrl != -w*sum(scaled a^2)')
    want(close(M['reward_alive'], hr_want), 'reward-term', 'reward_alive is not the healthy reward')
  elif name == 'humanoidstandup':
    want(close(rew, M['reward_linup'] + 1 + M['reward_quadctrl']), 'reward-sum', 'reward != linup + 1 + quadctrl')
    want(close(M['reward_linup'], z / dt), 'reward-term', 'reward_linup != z/dt')
    want(close(M['reward_quadctrl'], -0.01 * sq(scale_np(P, act))), 'reward-term',
         'reward_quadctrl != -0.01*sum(scaled a^2)')
  elif name == 'reacher':
    want(close(rew, M['reward_dist'] + M['reward_ctrl']), 'reward-sum', 'reward != dist + ctrl')
    want(close(M['reward_ctrl'], -sq(act)), 'reward-term', 'reward_ctrl != -sum(a^2)')
    want(close(M['reward_dist'], -np.linalg.norm(np.asarray(obs[-3:], dtype=np.float64))), 'reward-term',
         'reward_dist != -|tip - target|')
  elif name == 'pusher':
    want(close(rew, M['reward_dist'] + 0.1 * M['reward_ctrl'] + 0.5 * M['reward_near']), 'reward-sum',
         'reward != dist + 0.1 ctrl + 0.5 near')
    want(close(M['reward_ctrl'], -sq(scale_np(P, act))), 'reward-term', 'reward_ctrl != -sum(scaled a^2)')
  elif name == 'inverted_pendulum':
    want(rew == 1.0, 'reward-sum', 'reward != 1')
  elif name == 'inverted_double_pendulum':
    x, y = float(xp[2, 0]), float(xp[2, 2]) + 0.6
    want(close(rew, 10 - (0.01 * x * x + (y - 2) ** 2) - (1e-3 * float(qd[1]) ** 2 + 5e-3 * float(qd[2]) ** 2)),
         'reward-sum', 'reward != alive - dist penalty - velocity penalty')
  return out


# ----------------------------------------------------------------------------- action sequences


def gen_actions(rng, steps, batch, na):
  """(steps, batch, na) in [-1, 1]: first half of the batch uniform, second half bang-bang"""
  a = rng.uniform(-1.0, 1.0, size=(steps, batch, na))
  kinds = []
  for b in range(batch):
    if b < (batch + 1) // 2:
      kinds.append('uniform'); continue
    k = (b - (batch + 1) // 2) % 4
    if k == 0:      # independent random signs every step
      a[:, b] = rng.choice([-1.0, 1.0], size=(steps, na)); kinds.append('bang:iid')
    elif k == 1:    # signs held for random durations
      for j in range(na):
        t = 0
        while t < steps:
          d = int(rng.integers(5, 60))
          a[t:t + d, b, j] = rng.choice([-1.0, 1.0]); t += d
      kinds.append('bang:held')
    elif k == 2:    # all actuators together, square wave
      per = int(rng.integers(10, 40))
      a[:, b] = np.where((np.arange(steps) // per) % 2 == 0, 1.0, -1.0)[:, None]; kinds.append('bang:square')
    else:           # constant extreme
      a[:, b] = rng.choice([-1.0, 1.0]); kinds.append('bang:const')
  return a, kinds


# ----------------------------------------------------------------------------- one (env, backend) pair


def _np_state(ps):
  A = np.asarray
  return (A(ps.q), A(ps.qd), A(ps.x.pos), A(ps.x.rot), A(ps.xd.ang), A(ps.xd.vel))


def _row(st, b):
  return tuple(a[b] for a in st)


def run_pair(task):
  """runs in its own process.  task: name backend x64 steps batch ep_len key_seed act_seed stride repo
  [stop_at: (step,row) for replay]"""
  name, backend, x64 = task['name'], task['backend'], task['x64']
  sys.path.insert(0, task['repo'])
  import jax
  jax.config.update('jax_enable_x64', bool(x64))
  import jax.numpy as jp
  from brax import actuator
  from brax import envs
  from brax.envs.wrappers import training
  tol = 1e-9 if x64 else 2e-5
  qtol = 1e-9 if x64 else 1e-6
  res = dict(name=name, backend=backend, x64=x64, spec_failures=[], disagreements=[], evaluations=0,
             states=0, stats={}, samples=[], wall={}, quat_dev=0.0, qquat_dev=0.0, model_err=0.0, near_branch=0)
  base = dict(env=name, backend=backend, x64=bool(x64), steps=task['steps'], batch=task['batch'],
              ep_len=task['ep_len'], key_seed=task['key_seed'], act_seed=task['act_seed'])
  seen = set()
  def fail(key, what, **kw):
    k = f'{name}:{key}' if ':' not in key else key
    if k in seen:
      return
    seen.add(k)
    res['spec_failures'].append(dict(key=k, what=f'{name}/{backend}: {what}', **base, **kw))
  def disagree(what, **kw):
    if len(res['disagreements']) < 3:
      res['disagreements'].append(dict(what=f'{name}/{backend}: {what}', **base, **kw))

  if task.get('expect_unsupported'):
    try:
      envs.get_environment(name, backend=backend)
      fail('backend-accepted', f'constructor accepts backend {backend} which it does not support')
    except ValueError:
      res['stats']['refused'] = 1
    return res

  t0 = time.time()
  try:
    env = envs.get_environment(name, backend=backend)
  except Exception as e:   # the registry promises an Env for every supported native backend
    fail('constructor-raises', f'get_environment raises {type(e).__name__}: {str(e)[:200]}')
    return res
  from brax.envs.base import Wrapper

  class Tap(Wrapper):
    """pass-through wrapper placed UNDER training.wrap: copies what the bare environment returned into
    `info`, which AutoResetWrapper does not overwrite (it only replaces pipeline_state and obs)"""

    def reset(self, rng):
      st = self.env.reset(rng)
      st.info['tap_ps'], st.info['tap_obs'] = st.pipeline_state, st.obs
      st.info['tap_reward'], st.info['tap_done'] = st.reward, st.done
      return st

    def step(self, state, action):
      st = self.env.step(state, action)
      st.info['tap_ps'], st.info['tap_obs'] = st.pipeline_state, st.obs
      st.info['tap_reward'], st.info['tap_done'] = st.reward, st.done
      return st

  w = training.wrap(Tap(env), episode_length=task['ep_len'], action_repeat=1)
  P = env_cfg(env, name, backend)
  free_q, acc = [], 0
  for ch in env.sys.link_types:
    if ch == 'f':
      free_q.append(acc)
    acc += {'f': 7, '1': 1, '2': 2, '3': 3}[ch]
  from mujoco import mjx
  no_contacts = int(mjx.make_data(env.sys).ncon) == 0
  res['stats']['no_contacts'] = no_contacts
  ctoks = cfg_tokens(name, P)
  B, T = task['batch'], task['steps']
  na = int(env.action_size)
  nq, nv, nb = int(env.sys.q_size()), int(env.sys.qd_size()), int(env.sys.num_links())
  # observation_size runs `reset` eagerly (20-35 s on the generalized backend); evaluating the same
  # property under eval_shape traces it instead
  box = {}
  def _size():
    box['n'] = w.observation_size
    return jp.zeros(())
  jax.eval_shape(_size)
  obs_size = box['n']
  res['stats'].update(nq=nq, nv=nv, nb=nb, action_size=na, observation_size=int(obs_size))
  # constructor-flag variant (shape level only, by tracing: no compile): the declared observation size must follow
  # the flag that changes the observation layout
  if hasattr(env, '_exclude_current_positions_from_observation'):
    flag = not bool(env._exclude_current_positions_from_observation)
    try:
      env2 = envs.get_environment(name, backend=backend, exclude_current_positions_from_observation=flag)
      box2 = {}
      def _size2():
        box2['n'] = env2.observation_size
        return jp.zeros(())
      jax.eval_shape(_size2)
      shp = jax.eval_shape(env2.reset, jax.random.PRNGKey(0)).obs.shape
      res['stats']['flag_variant'] = dict(exclude_current_positions=flag, declared=int(box2['n']), obs=int(shp[-1]))
      want = spec_obs_size(name, env_cfg(env2, name, backend), nq, nv, nb)
      if int(box2['n']) != int(shp[-1]) or int(shp[-1]) != int(want):
        fail('obs-size-flag', f'with exclude_current_positions_from_observation={flag}: declared observation_size '
             f'{int(box2["n"])}, reset returns {int(shp[-1])}, layout formula {int(want)}')
    except Exception as e:  # noqa: BLE001
      fail('flag-constructor-raises', f'get_environment(..., exclude_current_positions_from_observation={flag}) raises '
           f'{type(e).__name__}: {str(e)[:200]}')
  if w.action_size != na or env.sys.act_size() != na:
    fail('action-size', f'action_size {na} differs from wrapper {w.action_size} / sys.act_size {env.sys.act_size()}')
  ft = jp.float64 if x64 else jp.float32
  keys = jax.random.split(jax.random.PRNGKey(task['key_seed']), B)
  rng = np.random.default_rng(task['act_seed'])
  actions, kinds = gen_actions(rng, T, B, na)
  jreset = jax.jit(w.reset)
  jstep = jax.jit(w.step)
  if name in HUMANOIDS:
    jtau = jax.jit(jax.vmap(lambda a, q, qd: actuator.to_tau(env.sys, a, q, qd)))
    rngj = jp.asarray(P['rng'], dtype=ft)
    tau = lambda a, q, qd: np.asarray(jtau((jp.asarray(a, dtype=ft) + 1) * (rngj[:, 1] - rngj[:, 0]) * 0.5 + rngj[:, 0],
                                           jp.asarray(q), jp.asarray(qd)))
  else:
    tau = lambda a, q, qd: np.zeros((B, 0))
  try:
    s_reset = jreset(keys)
    jax.block_until_ready(s_reset.obs)
  except Exception as e:
    fail('reset-raises', f'reset raises {type(e).__name__}: {str(e)[:200]}')
    return res
  res['wall']['reset_jit'] = round(time.time() - t0, 1)

  lines, expect = [], []      # driver lines and what the implementation returned
  hist = dict(done=0, truncation=0, autoreset=0, clip_active=0, steps=0)

  def check_common(tag, t, obs, reward, done, ps, where):
    """shape / finiteness / unit quaternions of one observation of the trace"""
    if obs.shape != (B, obs_size):
      fail('obs-shape', f'{tag}: obs shape {obs.shape} != (batch, observation_size) = {(B, obs_size)}', step=t)
    for nm, arr in (('obs', obs), ('reward', reward), ('done', done), ('q', ps[0]), ('qd', ps[1]),
                    ('x.pos', ps[2]), ('x.rot', ps[3])):
      if not np.all(np.isfinite(arr)):
        b = int(np.argwhere(~np.isfinite(arr).reshape(B, -1).all(axis=1))[0, 0])
        fail('non-finite', f'{tag}: {nm} is not finite at step {t}, row {b} ({kinds[b]})', step=t, row=b, where=where)
    if not np.all((done == 0) | (done == 1)):
      fail('done-not-bool', f'{tag}: done not in {{0,1}} at step {t}', step=t)
    dev = float(np.max(np.abs(np.linalg.norm(ps[3].astype(np.float64), axis=-1) - 1))) if ps[3].size else 0.0
    # quaternion coordinates of free joints in q (part of most observations).  Only after a step of the bare
    # environment: `reset` perturbs init_q coordinate-wise and does not renormalise (x.rot is normalised by
    # pipeline_init), so the reset state -- and every auto-reset row -- legitimately has |q[3:7]| != 1
    for st in (free_q if where == 'inner' else []):
      dq = float(np.max(np.abs(np.linalg.norm(ps[0][:, st + 3:st + 7].astype(np.float64), axis=-1) - 1)))
      if np.isfinite(dq):
        res['qquat_dev'] = max(res['qquat_dev'], dq)
        if dq > qtol:
          fail('free-joint-quat-not-unit', f'{tag}: | |q[{st + 3}:{st + 7}]| - 1 | = {dq:.3e} > {qtol:g} at step {t} '
               f'(quaternion coordinates of a free joint)', step=t, deviation=dq)
    if np.isfinite(dev):
      res['quat_dev'] = max(res['quat_dev'], dev)
      if dev > qtol:
        b = int(np.argmax(np.max(np.abs(np.linalg.norm(ps[3].astype(np.float64), axis=-1) - 1), axis=-1)))
        d3 = backend == 'positional' and no_contacts
        fail(D3_KEY if d3 else 'quat-not-unit',
             f'{tag}: | |x.rot| - 1 | = {dev:.3e} > {qtol:g} at step {t}, row {b} ({kinds[b]})'
             + (' [system without contact pairs on the positional backend: resolve_position returns before '
                'renormalising the quaternions]' if d3 else ''), step=t, row=b, deviation=dev)

  def rollout(record):
    """returns the list of per-step numpy records (second call: for the determinism comparison)"""
    trace = []
    state = jreset(keys)
    r0 = dict(obs=np.asarray(state.obs), reward=np.asarray(state.reward), done=np.asarray(state.done),
              ps=_np_state(state.pipeline_state), met={k: np.asarray(v) for k, v in state.metrics.items()})
    trace.append(r0)
    if record:
      check_common('reset', 0, r0['obs'], r0['reward'], r0['done'], r0['ps'], 'reset')
      if np.any(r0['done'] != 0):
        fail('reset-done', f'done = {r0["done"].tolist()} after reset')
      if np.any(r0['reward'] != 0):
        fail('reset-reward', f'reward = {r0["reward"].tolist()} after reset')
      if len(r0['met']) != N_RESET_METRICS[name] or any(np.any(v != 0) for v in r0['met'].values()):
        fail('reset-metrics', f'metrics after reset are not {N_RESET_METRICS[name]} zeros: { {k: v.tolist() for k, v in r0["met"].items()} }')
      qf = None
      if name in HUMANOIDS:
        # reset observes to_tau of the ZERO action (not rescaled)
        qf = np.asarray(jtau(jp.zeros((B, na), dtype=ft), jp.asarray(r0['ps'][0]), jp.asarray(r0['ps'][1])))
      for b in range(B if task.get('contract', True) else 0):
        lines.append(' '.join(['reset', name] + ctoks + state_tokens(_row(r0['ps'], b))
                              + (vec(qf[b]) if qf is not None else ['0'])))
        expect.append(dict(kind='reset', t=0, b=b, obs=r0['obs'][b], reward=0.0, done=0.0,
                           met=np.zeros(N_RESET_METRICS[name])))
    first_obs = r0['obs']
    steps_ctr = np.zeros(B)
    for t in range(T):
      a = jp.asarray(actions[t], dtype=ft)
      prev_ps = _np_state(state.pipeline_state)
      try:
        nstate = jstep(state, a)
        jax.block_until_ready(nstate.obs)
      except Exception as e:
        msg = f'{type(e).__name__}: {str(e)[:300]}'
        if "unexpected keyword argument 'a_min'" in msg:
          fail(D6_KEY, f'step {t + 1} raises {msg} (brax/fluid.py: force calls jp.clip(..., a_min=...), a keyword '
                       f'jax 0.11 no longer has)', step=t)
        else:
          fail('step-raises', f'step {t + 1} with an action of the declared size {na} raises {msg}', step=t)
        return trace
      if t == 0 and record:
        res['wall']['step_jit'] = round(time.time() - t0 - res['wall']['reset_jit'], 1)
      w_ps, r_ps = _np_state(nstate.pipeline_state), _np_state(nstate.info['tap_ps'])
      rec = dict(obs=np.asarray(nstate.obs), reward=np.asarray(nstate.reward), done=np.asarray(nstate.done),
                 ps=w_ps, met={k: np.asarray(v) for k, v in nstate.metrics.items()},
                 robs=np.asarray(nstate.info['tap_obs']), rreward=np.asarray(nstate.info['tap_reward']),
                 rdone=np.asarray(nstate.info['tap_done']), rps=r_ps)
      trace.append(rec)
      if record:
        hist['steps'] += 1
        check_common('step', t + 1, rec['obs'], rec['reward'], rec['done'], w_ps, 'wrapped')
        check_common('inner step', t + 1, rec['robs'], rec['rreward'], rec['rdone'], r_ps, 'inner')
        # ---- the wrappers hand the inner step through (action_repeat = 1)
        steps_ctr = np.where(trace[-2]['done'] != 0, 0, steps_ctr) + 1
        trunc = steps_ctr >= task['ep_len']
        want_done = np.where(trunc, 1.0, rec['rdone'])
        want_obs = np.where(want_done[:, None] != 0, first_obs, rec['robs'])
        if not (np.array_equal(rec['done'], want_done) and np.array_equal(rec['reward'], rec['rreward'])
                and np.array_equal(rec['obs'], want_obs)):
          fail('wrapper-handthrough', f'step {t + 1}: wrapped (obs, reward, done) is not the inner step / auto-reset of it',
               step=t)
        hist['done'] += int(np.sum(rec['rdone'] != 0)); hist['truncation'] += int(np.sum(trunc & (rec['rdone'] == 0)))
        hist['autoreset'] += int(np.sum(want_done != 0))
        hist['clip_active'] += int(np.sum(np.abs(r_ps[1]) > 10))
        # ---- documented contract + model lines
        qf = tau(actions[t], r_ps[0], r_ps[1]) if name in HUMANOIDS else None
        do_model = (t % task['stride'] == 0) or t < 20 or bool(np.any(rec['rdone'] != 0))
        for b in range(B):
          r = dict(s0=_row(prev_ps, b), s=_row(r_ps, b), act=actions[t, b].astype(np.float64), obs=rec['robs'][b],
                   reward=rec['rreward'][b], done=rec['rdone'][b],
                   met={k: rec['met'][k][b] for k in METRICS[name]}, qfrc=None if qf is None else qf[b])
          if task.get('contract', True) and all(np.all(np.isfinite(v)) for v in r['s']) and np.all(np.isfinite(r['obs'])):
            for key, msg in spec_step(name, P, r, tol):
              fail(key, f'step {t + 1}, row {b} ({kinds[b]}): {msg}', step=t, row=b,
                   q=r['s'][0].tolist(), qd=r['s'][1].tolist(), torso_pos=r['s'][2][0].tolist() if nb else None,
                   action=r['act'].tolist())
            if do_model:
              lines.append(' '.join(['step', name] + ctoks + state_tokens(r['s0']) + state_tokens(r['s'])
                                    + vec(r['act']) + [tok(0.0)] + (vec(r['qfrc']) if qf is not None else ['0'])))
              expect.append(dict(kind='step', t=t + 1, b=b, obs=r['obs'], reward=float(r['reward']),
                                 done=float(r['done']), met=np.array([float(r['met'][k]) for k in METRICS[name]]),
                                 z=float(r['s'][2][0][2]) if nb else 0.0, q=r['s'][0]))
        if task.get('stop_at') is not None and t >= task['stop_at']:
          break
      state = nstate
    return trace

  tr1 = rollout(True)
  res['wall']['rollout'] = round(time.time() - t0, 1)
  # ---- determinism: same keys, same actions, second evaluation
  if not res['spec_failures'] or all(f['key'] != D6_KEY and 'raises' not in f['key'] for f in res['spec_failures']):
    if task.get('determinism', True):
      tr2 = rollout(False)
      for t, (a, b) in enumerate(zip(tr1, tr2)):
        for k in ('obs', 'reward', 'done'):
          if not np.array_equal(a[k], b[k], equal_nan=True):
            fail('non-deterministic', f'second roll-out with the same keys/actions differs in {k} at step {t}', step=t)
        for x, y in zip(a['ps'], b['ps']):
          if not np.array_equal(x, y, equal_nan=True):
            fail('non-deterministic', f'second roll-out differs in the pipeline state at step {t}', step=t)
      res['stats']['determinism_steps'] = len(tr2) - 1
  # ---- Lean model
  lines.insert(0, f'size {name} {1 if P.get("exclude", True) else 0} {nq} {nv} {nb}')
  out = C.run_driver('Driver/C16.lean', lines) if lines else []
  if len(out) != len(lines):
    raise RuntimeError(f'driver answered {len(out)} lines for {len(lines)}')
  if out[0].strip() != str(obs_size):
    disagree(f'obsSize formula of the model gives {out[0]} but observation_size = {obs_size}', nq=nq, nv=nv, nb=nb)
  states = set()
  for ln, o, e in zip(lines[1:], out[1:], expect):
    res['evaluations'] += 1
    if o.startswith('bad'):
      disagree(f'driver answered {o} for a {e["kind"]} line (t={e["t"]}, row={e["b"]})', line=ln[:400]); continue
    mobs, mrew, mdone, mmet = parse_out(o)
    states.add(hash(ln))
    def err(a, b):
      a, b = np.asarray(a, dtype=np.float64), np.asarray(b, dtype=np.float64)
      if a.shape != b.shape:
        return np.inf
      return float(np.max(np.abs(a - b) / (1 + np.abs(b)))) if a.size else 0.0
    e_obs, e_rew, e_met = err(mobs, e['obs']), err(mrew, e['reward']), err(mmet, e['met'])
    worst = max(e_obs, e_rew, e_met)
    if np.isfinite(worst):
      res['model_err'] = max(res['model_err'], worst)
    what = None
    if e_obs > tol:
      what = f'obs: model differs from _get_obs by {e_obs:.3e} (lengths {len(mobs)} / {len(e["obs"])})'
    elif e_rew > tol:
      what = f'reward: model {mrew!r} implementation {e["reward"]!r}'
    elif mdone != e['done']:
      what = f'done: model {mdone} implementation {e["done"]}'
    elif e_met > tol:
      bad = int(np.argmax(np.abs(mmet - e['met']) / (1 + np.abs(e['met'])))) if mmet.shape == e['met'].shape else -1
      what = f'metric {METRICS[name][bad] if bad >= 0 and e["kind"] == "step" else "?"}: model differs by {e_met:.3e}'
    if what:
      disagree(f'{e["kind"]} t={e["t"]} row={e["b"]}: {what}', step=e['t'], row=e['b'],
               model=dict(obs=mobs.tolist()[:40], reward=mrew, done=mdone, metrics=mmet.tolist()),
               real=dict(obs=np.asarray(e['obs'], dtype=np.float64).tolist()[:40], reward=e['reward'], done=e['done'],
                         metrics=np.asarray(e['met']).tolist()))
  res['states'] = len(states)
  res['stats'].update(hist)
  res['stats']['kinds'] = kinds
  if expect:
    e = expect[min(len(expect) - 1, B + 3)]
    res['samples'].append(dict(env=name, backend=backend, kind=e['kind'], step=e['t'], row=e['b'],
                               obs_head=np.asarray(e['obs'], dtype=np.float64)[:6].tolist(), reward=e['reward'],
                               done=e['done']))
  res['wall']['total'] = round(time.time() - t0, 1)
  return res


# ----------------------------------------------------------------------------- process pool


def _worker_main():
  task = pickle.load(open(sys.argv[1], 'rb'))
  os.chdir(os.path.dirname(sys.argv[1]))
  res = run_pair(task)
  pickle.dump(res, open(sys.argv[2], 'wb'))


def run_tasks(ctx, tasks, procs):
  """each task in a fresh python process (jax_enable_x64 is process wide); at most `procs` at a time"""
  pending = list(enumerate(tasks))
  running, results = [], [None] * len(tasks)
  env = dict(os.environ, JAX_PLATFORMS='cpu', PYTHONDONTWRITEBYTECODE='1',
             XLA_FLAGS=os.environ.get('XLA_FLAGS', '') + ' --xla_force_host_platform_device_count=1')
  while pending or running:
    while pending and len(running) < procs:
      i, t = pending.pop(0)
      d = os.path.join(ctx.work, f'task{i}_{int(time.time() * 1000) % 100000}')
      os.makedirs(d, exist_ok=True)
      fin, fout = os.path.join(d, 'in.pkl'), os.path.join(d, 'out.pkl')
      pickle.dump(dict(t, repo=ctx.repo), open(fin, 'wb'))
      p = subprocess.Popen([sys.executable, os.path.abspath(__file__), fin, fout], env=env,
                           stdout=subprocess.PIPE, stderr=subprocess.PIPE, text=True)
      running.append((i, p, fout, time.time()))
    still = []
    for i, p, fout, ts in running:
      if p.poll() is None:
        still.append((i, p, fout, ts)); continue
      _, err = p.communicate()
      if p.returncode != 0 or not os.path.exists(fout):
        raise RuntimeError(f'worker for {tasks[i]["name"]}/{tasks[i]["backend"]} failed:\n{err[-3000:]}')
      results[i] = pickle.load(open(fout, 'rb'))
    running = still
    time.sleep(0.2)
  return results


def all_pairs():
  return [(n, b) for n in NAMES for b in SUPPORTED[n]]


def make_task(name, backend, seed, steps, batch, ep_len, stride, **kw):
  return dict(name=name, backend=backend, x64=name not in F32_ONLY, steps=steps, batch=batch, ep_len=ep_len,
              key_seed=int(seed), act_seed=int(seed) * 1000 + 17, stride=stride, **kw)


def pick_tasks(ctx, offset=0, only_envs=None):
  rng = np.random.default_rng(ctx.seed + offset)
  pairs = all_pairs()
  if only_envs:
    pairs = [p for p in pairs if p[0] in only_envs]
  if ctx.tier == 'thorough' and not offset:
    tasks = []
    for n, b in pairs:
      heavy = n in HUMANOIDS or (n in ('ant', 'hopper', 'walker2d') and b != 'spring')
      steps = 200 if heavy else int(rng.choice([400, 600, 1000]))
      tasks.append(make_task(n, b, ctx.seed + offset, steps, 8, 1000 if steps >= 1000 else 150, 5))
    # native dtype leg: brax runs in float32 unless told otherwise; shapes, done, finiteness, unit
    # quaternions and determinism of the same pairs in float32 (contract and model are tied in float64)
    for n, b in pairs:
      if n not in F32_ONLY:
        tasks.append(dict(make_task(n, b, ctx.seed + offset + 1, 200, 8, 150, 10 ** 9), x64=False, contract=False))
    # the registry refuses the backends an environment does not support
    tasks += [dict(make_task(n, b, 0, 0, 1, 1, 1), expect_unsupported=True)
              for n in NAMES for b in NATIVE if b not in SUPPORTED[n]]
    return tasks
  # quick: 6 of the 11 environments -- a window that rotates with the seed, so two consecutive seeds
  # cover all of them -- each on one native backend (all three occur); one process per pair so the jit
  # cost (15-40 s per pair) is paid in parallel.  VERIF_C16_ENVS=env[:backend],... overrides the window (debugging).
  envs_ = [n for n in NAMES if not only_envs or n in only_envs]
  forced_b = dict((e.split(':') + [None])[:2] for e in os.environ.get('VERIF_C16_ENVS', '').split(',') if e)
  forced = [n for n in forced_b if n in NAMES]
  if forced and not only_envs:
    chosen = forced
  else:
    start = (6 * (ctx.seed + offset)) % len(envs_)
    chosen = [envs_[(start + i) % len(envs_)] for i in range(min(6, len(envs_)))]
  shift = int(rng.integers(0, 3))
  tasks = []
  for i, n in enumerate(chosen):
    b = SUPPORTED[n][(i + shift) % len(SUPPORTED[n])]
    if forced and not only_envs and forced_b.get(n) in SUPPORTED[n]:
      b = forced_b[n]
    tasks.append(make_task(n, b, ctx.seed + offset, 50, 8, 30, 1))
  if 'swimmer' not in chosen and not only_envs and not forced:
    # swimmer is the environment with a known platform problem (D6): probed on every run, short
    tasks.append(make_task('swimmer', 'generalized', ctx.seed + offset, 12, 8, 8, 1))
  # heaviest first so the pool drains evenly
  tasks.sort(key=lambda t: (t['name'] not in HUMANOIDS, t['backend'] != 'generalized'))
  return tasks


# ----------------------------------------------------------------------------- API


def _collect(ctx, tasks, procs):
  t0 = time.time()
  results = run_tasks(ctx, tasks, procs)
  dis, fails, samples, per_pair = [], [], [], {}
  ev = st = 0
  for r in results:
    dis += r['disagreements']; fails += r['spec_failures']; samples += r['samples']
    ev += r['evaluations']; st += r['states']
    per_pair[f'{r["name"]}/{r["backend"]}' + ('' if r['x64'] or r['name'] in F32_ONLY else '/float32')] = dict(
        dtype='float64' if r['x64'] else 'float32', max_quat_deviation=r['quat_dev'], max_free_joint_quat_deviation=r['qquat_dev'], max_model_error=r['model_err'],
        wall=r['wall'], **{k: v for k, v in r['stats'].items() if k != 'kinds'})
  return dict(dis=dis, fails=fails, samples=samples, per_pair=per_pair, evaluations=ev, states=st,
              wall=round(time.time() - t0, 1))


def correspond(ctx):
  tasks = pick_tasks(ctx)
  c = _collect(ctx, tasks, ctx.budget(8, 8))
  return dict(
      evaluations=c['evaluations'], distinct_nontrivial=c['states'],
      rule='one evaluation = one (environment, backend, step, batch row): the Lean env model fed with the '
           "implementation's pipeline state before/after the step and the action, compared with obs/reward/done/"
           'metrics of the real step (1e-9 relative under x64, 2e-5 for the float32-only inverted_double_pendulum); '
           'distinct = distinct driver input lines; quick: 6 of the 11 environments (window rotating with the seed: two '
           'consecutive seeds cover all), one native backend each, 50 steps, batch 8 (4 uniform + 4 bang-bang rows), episode_length 30 so the '
           'time-limit auto-reset is exercised; thorough: all 31 supported pairs, 200-1000 steps, model on every 5th '
           'step + the first 20 + every step with a termination',
      samples=c['samples'][:5], disagreements=c['dis'], spec_failures=c['fails'],
      trusted_base=['correspondence harness corr_C16.py (sampled trajectories; float64, 1e-9 relative)',
                    'the physics pipelines (generalized/spring/positional step) are NOT modelled: the env models are '
                    'functions of the pipeline state the implementation produced',
                    'actuator.to_tau enters the humanoid observation as an input (C11)',
                    'jax.jit / vmap / lax.scan of the wrappers (platform)'],
      assumptions=['IEEE round-off not modelled; theorems over linear ordered fields',
                   'finiteness / unit quaternions over long histories is observed on the sampled trajectories only '
                   '(no theorem; DESIGN.md section 8)'],
      explanation='P: obs_length, reset_done_zero, done_iff_unhealthy, reward_decomposition, action scaling (Lean, all '
                  'states). corr: model <-> real env.step/reset on sampled trajectories; contract (shape, action size, '
                  'done=0 at reset, determinism, finiteness, unit quaternions) evaluated on the real code. out: '
                  'finiteness under ALL bounded action sequences.',
      extra=dict(pairs=c['per_pair'], n_pairs=len(tasks), wall_pairs=c['wall'],
                 skipped_near_branch=0,
                 dtype_note='float64 (jax_enable_x64) everywhere except inverted_double_pendulum (float32: its step '
                            'does not trace under x64 inside training.wrap)'))


def search(ctx, broken, corr):
  """the property's own statement + the documented contract on more pairs (other seeds), the
  environments named by the broken obligations first"""
  named = {n for n in NAMES for b in broken if n in b.lower().replace('invertedpendulum', 'inverted_pendulum')}
  tasks = pick_tasks(ctx, offset=1000, only_envs=named or None)
  if ctx.tier == 'thorough':
    tasks += pick_tasks(ctx, offset=2000, only_envs=named or None)
  return _collect(ctx, tasks, ctx.budget(8, 8))['fails']


def replay(ctx, rp):
  if rp.get('kind') != 'failing-input':
    return True, f'replay names broken obligations only: {rp.get("broken")}'
  t = dict(name=rp['env'], backend=rp['backend'], x64=rp['x64'], steps=rp['steps'], batch=rp['batch'],
           ep_len=rp['ep_len'], key_seed=rp['key_seed'], act_seed=rp['act_seed'], stride=10 ** 9,
           determinism=rp['key'].endswith('non-deterministic'))
  if rp.get('step') is not None and not t['determinism']:
    t['stop_at'] = int(rp['step'])
  r = run_tasks(ctx, [t], 1)[0]
  same = [f for f in r['spec_failures'] if f['key'] == rp['key']]
  if same:
    return False, f'reproduced: {same[0]["what"]}'
  return True, f'not reproduced on this tree: {rp["key"]} ({rp["env"]}/{rp["backend"]})'


def reproduce_known(ctx, entry):
  """re-run the smallest trajectory that shows a listed finding (by key)"""
  key = entry.get('key')
  if key == D6_KEY:
    t = make_task('swimmer', 'generalized', 0, 2, 2, 1000, 10 ** 9, determinism=False, contract=False)
  elif key == D3_KEY:
    t = make_task('inverted_pendulum', 'positional', 0, 5, 8, 1000, 10 ** 9, determinism=False, contract=False)
  else:
    return True
  r = run_tasks(ctx, [t], 1)[0]
  return any(f['key'] == key for f in r['spec_failures'])


if __name__ == '__main__':
  _worker_main()
