"""C13 — fusing jointless bodies on load preserves the model's geometry.

Triangle (DESIGN.md 2.2):

  leg 1  implementation <-> Model : the real `mjcf.fuse_bodies(xml)` against the Lean model
         `fuse` / `fuseFixed` (Driver/C13.lean, exact rationals) on generated MJCF documents:
         same element structure (tags, names, order, which attributes are present) and the same
         numbers up to the '%f' six-decimal print (|d| <= 5e-7 per applied offset).
  thm    Model = Spec             : Props/C13.lean, every document.
  leg 2  Spec <-> MuJoCo          : the Lean Spec `docEntries` (anchor + relative pose of every
         element) of the *original* document, composed with MuJoCo's pose of the anchor body,
         against MuJoCo's own world pose of the element (1e-9).
  leg 3  the property's own observation, on the real code: MuJoCo `mj_forward` of the original
         document vs of `mjcf.fuse_bodies(xml)`, by element name (poses 1e-5; mass, first moment
         and inertia of every moving body incl. the bodies welded to it).  A failure here is a
         spec failure (the implementation contradicts the property): shrunk and returned.

Which guard variant of the model corresponds to the code (pinned `(cpos != 0).any()` or the D5
patch) is decided by running the D5 witness on the real code; leg 1 then checks that variant on
every document.
"""
from __future__ import annotations

import hashlib
import os
import struct
import sys
import time
import warnings
from xml.etree import ElementTree as ET

import numpy as np

HERE = os.path.dirname(os.path.abspath(__file__))
sys.path.insert(0, HERE)
import check as C  # noqa: E402

KEY_D5 = 'fuse:rot-only-jointless-body'
KEY_F8 = 'fuse:non-unit-quat-jointless-body'
KEY_MOVED = 'fuse:geometry-moved'
KEY_REJECT = 'fuse:fused-document-rejected'

D5_XML = ('<mujoco><worldbody><body name="A" quat="0.7071067811865476 0 0.7071067811865476 0">'
          '<geom name="g" type="sphere" size="0.1" pos="0.5 0 0"/></body></worldbody></mujoco>')
F8_XML = ('<mujoco><worldbody><body name="A" pos="0 0 2" quat="2 0 0 0">'
          '<geom name="g" type="sphere" size="0.1" pos="1 0 0"/></body></worldbody></mujoco>')

POSE_TOL = 1e-5
SPEC_TOL = 1e-9
SPEC_TOL_SAMEFRAME = 5e-6


# ----------------------------------------------------------------------------- numbers / wire


def f2hex(x):
  return 'x%016x' % struct.unpack('>Q', struct.pack('>d', float(x)))[0]


def parse_tok(t):
  if t.startswith('x'):
    return struct.unpack('>d', struct.pack('>Q', int(t[1:], 16)))[0]
  if '/' in t:
    a, b = t.split('/')
    return int(a) / int(b)
  return float(int(t))


def nums(s):
  """the numbers of an attribute exactly as `_offset` reads them"""
  with warnings.catch_warnings():
    warnings.simplefilter('ignore')
    return np.fromstring(s, sep=' ')


# ----------------------------------------------------------------------------- XML <-> tree

LEAF = {'geom': 'g', 'site': 's', 'camera': 'c'}


def xml_to_tree(el):
  """ElementTree element -> the tree the model talks about (what `_fuse_bodies` looks at)"""
  tag = el.tag
  name = el.attrib.get('name', '')
  if tag == 'body':
    return dict(t='B', name=name, pos=_opt(el, 'pos', 3), quat=_opt(el, 'quat', 4),
                ch=[xml_to_tree(c) for c in el])
  if tag in LEAF:
    ft = el.attrib.get('fromto', None)
    if ft:
      v = nums(ft)
      if len(v) != 6:
        raise ValueError(f'fromto with {len(v)} numbers')
      return dict(t='L', k=LEAF[tag], name=name, fromto=[float(x) for x in v], quat=_opt(el, 'quat', 4))
    return dict(t='L', k=LEAF[tag], name=name, pos=_opt(el, 'pos', 3), quat=_opt(el, 'quat', 4))
  if tag in ('joint', 'freejoint'):
    return dict(t='J', free=int(tag == 'freejoint'), name=name)
  return dict(t='O', tag=tag, ch=[xml_to_tree(c) for c in el])


def _opt(el, key, n):
  s = el.attrib.get(key, None)
  if s is None:
    return None
  v = nums(s)
  if len(v) != n:
    raise ValueError(f'{key} with {len(v)} numbers')
  return [float(x) for x in v]


def _name_ok(s):
  return ' ' not in s and '\t' not in s


def tree_to_tokens(t, out):
  def opt(v):
    if v is None:
      out.append('0')
    else:
      out.append('1'); out.extend(f2hex(x) for x in v)
  if not _name_ok(t.get('name', '')) or not _name_ok(t.get('tag', '')):
    raise ValueError('names with blanks are not supported by the wire format')
  if t['t'] == 'B':
    out += ['B', ':' + t['name']]; opt(t['pos']); opt(t['quat']); out.append(str(len(t['ch'])))
    for c in t['ch']:
      tree_to_tokens(c, out)
  elif t['t'] == 'L':
    out += ['L', t['k'], ':' + t['name']]
    if 'fromto' in t:
      out.append('F'); out.extend(f2hex(x) for x in t['fromto']); opt(t['quat'])
    else:
      out.append('P'); opt(t['pos']); opt(t['quat'])
  elif t['t'] == 'J':
    out += ['J', str(t['free']), ':' + t['name']]
  else:
    out += ['O', ':' + t['tag'], str(len(t['ch']))]
    for c in t['ch']:
      tree_to_tokens(c, out)
  return out


def tokens_to_tree(toks, i=0):
  """parse the driver's answer (numbers are exact rationals)"""
  def take(n):
    nonlocal i
    v = [parse_tok(x) for x in toks[i:i + n]]; i += n
    return v
  def opt(n):
    nonlocal i
    flag = toks[i]; i += 1
    return take(n) if flag == '1' else None
  tg = toks[i]; i += 1
  if tg == 'B':
    name = toks[i][1:]; i += 1
    pos = opt(3); quat = opt(4)
    n = int(toks[i]); i += 1
    ch = []
    for _ in range(n):
      c, i = tokens_to_tree(toks, i); ch.append(c)
    return dict(t='B', name=name, pos=pos, quat=quat, ch=ch), i
  if tg == 'L':
    k = toks[i]; name = toks[i + 1][1:]; mode = toks[i + 2]; i += 3
    if mode == 'F':
      ft = take(6); quat = opt(4)
      return dict(t='L', k=k, name=name, fromto=ft, quat=quat), i
    pos = opt(3); quat = opt(4)
    return dict(t='L', k=k, name=name, pos=pos, quat=quat), i
  if tg == 'J':
    free = int(toks[i]); name = toks[i + 1][1:]; i += 2
    return dict(t='J', free=free, name=name), i
  if tg == 'O':
    tag = toks[i][1:]; n = int(toks[i + 1]); i += 2
    ch = []
    for _ in range(n):
      c, i = tokens_to_tree(toks, i); ch.append(c)
    return dict(t='O', tag=tag, ch=ch), i
  raise ValueError(f'bad token {tg}')


def has_joint(t):
  return any(c['t'] == 'J' for c in t['ch'])


def is_jointless(t):
  return t['t'] == 'B' and not has_joint(t)


def chain_depths(t, k=0, out=None):
  """name-keyed: number of consecutive jointless body ancestors directly above an element
  (= upper bound on the number of '%f' roundings its attributes went through)"""
  out = {} if out is None else out
  for c in t.get('ch', []):
    if c['t'] in ('B', 'L'):
      out[(c['t'], c.get('k', 'b'), c['name'])] = k
    if c['t'] == 'B':
      chain_depths(c, k + 1 if is_jointless(c) else 0, out)
    elif c['t'] == 'O':
      chain_depths(c, k, out)
  return out


def doc_stats(t, st, depth=0):
  for c in t.get('ch', []):
    if c['t'] == 'B':
      if is_jointless(c):
        mode = ('pos' if c['pos'] is not None else '') + ('quat' if c['quat'] is not None else '') or 'neither'
        st['jointless_' + mode] = st.get('jointless_' + mode, 0) + 1
        st['max_chain'] = max(st.get('max_chain', 0), depth + 1)
        if rot_only(c):
          st['rot_only'] = st.get('rot_only', 0) + 1
        doc_stats(c, st, depth + 1)
      else:
        st['jointed'] = st.get('jointed', 0) + 1
        if depth:
          st['jointed_under_jointless'] = st.get('jointed_under_jointless', 0) + 1
        doc_stats(c, st, 0)
    elif c['t'] == 'L':
      kind = c['k'] + ('_fromto' if 'fromto' in c else '')
      st['leaf_' + kind] = st.get('leaf_' + kind, 0) + 1
      if depth:
        st['leaf_under_jointless'] = st.get('leaf_under_jointless', 0) + 1
    elif c['t'] == 'O':
      doc_stats(c, st, depth)
  return st


def rot_only(c):
  """jointless body whose `pos` is absent/zero and whose `quat` is not the identity (D5 shape)"""
  if not is_jointless(c):
    return False
  pos = c['pos'] or [0, 0, 0]
  quat = c['quat'] or [1, 0, 0, 0]
  return not any(pos) and list(quat) != [1, 0, 0, 0]


def any_rot_only(t, need_content=False):
  for c in t.get('ch', []):
    if c['t'] == 'B' and rot_only(c) and (not need_content or any(g['t'] in ('B', 'L') for g in c['ch'])):
      return True
    if c['t'] in ('B', 'O') and any_rot_only(c, need_content):
      return True
  return False


# ----------------------------------------------------------------------------- generator


class Gen:
  """seeded generator of MJCF documents per the property's quantifier"""

  def __init__(self, rng):
    self.rng = rng
    self.n = 0

  def name(self, p):
    self.n += 1
    return f'{p}{self.n}'

  def fmt(self, v, digits=3):
    return ' '.join(repr(round(float(x), digits)) if digits else repr(float(x)) for x in v)

  def pos(self):
    r = self.rng
    u = r.random()
    if u < 0.08:
      return '0 0 0'
    v = np.round(r.uniform(-1, 1, 3), 3)
    if u < 0.35:                       # some components exactly zero
      v[r.integers(0, 3)] = 0.0
      if u < 0.2:
        v[r.integers(0, 3)] = 0.0
    return self.fmt(v)

  def unit_quat(self):
    r = self.rng
    u = r.random()
    if u < 0.06:
      return '1 0 0 0'
    if u < 0.14:                       # a small shim rotation (0.02 - 0.6 degrees): w = cos(angle/2) is within 1e-5 of 1
      ax = r.normal(size=3); ax /= np.linalg.norm(ax)
      ang = np.deg2rad(float(r.uniform(0.02, 0.6))) * (1 if r.random() < 0.5 else -1)
      q = np.concatenate([[np.cos(ang / 2)], np.sin(ang / 2) * ax])
      return ' '.join(repr(float(x)) for x in q)
    if u < 0.25:                       # quarter/half turns about an axis, full double precision
      ax = r.integers(0, 3)
      ang = [np.pi / 2, np.pi, -np.pi / 2, np.pi / 3][r.integers(0, 4)]
      q = np.zeros(4); q[0] = np.cos(ang / 2); q[1 + ax] = np.sin(ang / 2)
      return ' '.join(repr(float(x)) for x in q)
    q = r.normal(size=4); q /= np.linalg.norm(q)
    q = np.round(q, 12)
    return ' '.join(repr(float(x)) for x in q)

  def any_quat(self):
    """quat of an element that is *not* a jointless body: MuJoCo normalises it, no hypothesis"""
    if self.rng.random() < 0.12:
      q = self.rng.integers(-3, 4, 4).astype(float)
      if not q.any():
        q[0] = 2.0
      return self.fmt(q, 0)
    return self.unit_quat()

  def place(self, el, quat_fn=None):
    r = self.rng
    m = r.integers(0, 4)               # pos only / quat only / both / neither
    if m in (0, 2):
      el.set('pos', self.pos())
    if m in (1, 2):
      el.set('quat', (quat_fn or self.any_quat)())
    return ('pos', 'quat', 'both', 'neither')[m]

  def geom(self, parent, allow_fromto=True):
    r = self.rng
    g = ET.SubElement(parent, 'geom', name=self.name('g'))
    if allow_fromto and r.random() < 0.35:
      g.set('type', 'capsule' if r.random() < 0.7 else 'cylinder')
      a = np.round(r.uniform(-1, 1, 3), 3)
      b = a + np.round(r.uniform(0.2, 0.8) * self._dir(), 3)
      g.set('fromto', self.fmt(np.concatenate([a, b]), 6))
      g.set('size', self.fmt([r.uniform(0.03, 0.1)]))
      return g
    ty = ['sphere', 'capsule', 'box', 'ellipsoid', 'cylinder'][r.integers(0, 5)]
    g.set('type', ty)
    n = {'sphere': 1, 'capsule': 2, 'box': 3, 'ellipsoid': 3, 'cylinder': 2}[ty]
    g.set('size', self.fmt(r.uniform(0.05, 0.3, n)))
    self.place(g)
    return g

  def _dir(self):
    v = self.rng.normal(size=3)
    return v / np.linalg.norm(v)

  def site(self, parent):
    r = self.rng
    s = ET.SubElement(parent, 'site', name=self.name('s'))
    if r.random() < 0.25:
      s.set('type', 'capsule')
      a = np.round(r.uniform(-1, 1, 3), 3)
      b = a + np.round(r.uniform(0.2, 0.6) * self._dir(), 3)
      s.set('fromto', self.fmt(np.concatenate([a, b]), 6))
      s.set('size', '0.02')
    else:
      self.place(s)
    return s

  def camera(self, parent):
    c = ET.SubElement(parent, 'camera', name=self.name('c'))
    self.place(c)
    return c

  def jointed(self, parent, depth, top):
    r = self.rng
    b = ET.SubElement(parent, 'body', name=self.name('b'))
    self.place(b)
    u = r.random()
    if top and u < 0.2:
      ET.SubElement(b, 'freejoint', name=self.name('j'))
    elif u < 0.35:
      ET.SubElement(b, 'joint', name=self.name('j'), type='ball')
    else:
      for _ in range(1 + int(r.random() < 0.25)):
        ET.SubElement(b, 'joint', name=self.name('j'), type='hinge' if r.random() < 0.7 else 'slide',
                      axis=self.fmt(self._dir()))
    self.geom(b)
    self.content(b, depth, 0)
    return b

  def jointless(self, parent, depth, chain):
    b = ET.SubElement(parent, 'body', name=self.name('w'))
    self.place(b, quat_fn=self.unit_quat)
    self.content(b, depth, chain)
    return b

  def content(self, b, depth, chain):
    r = self.rng
    for _ in range(r.integers(0, 3)):
      self.geom(b)
    if r.random() < 0.5:
      self.site(b)
    if r.random() < 0.12:
      self.camera(b)
    if chain < 3:
      for _ in range(r.choice([0, 1, 1, 2]) if chain == 0 else r.choice([0, 0, 1])):
        self.jointless(b, depth, chain + 1)
    if depth < 2 and r.random() < (0.5 if chain else 0.35):
      self.jointed(b, depth + 1, False)

  def doc(self):
    r = self.rng
    self.n = 0
    root = ET.Element('mujoco')
    ET.SubElement(root, 'option', timestep='0.002')
    w = ET.SubElement(root, 'worldbody')
    if r.random() < 0.5:
      ET.SubElement(w, 'geom', name='floor', type='plane', size='5 5 0.1')
    if r.random() < 0.2:
      self.site(w)
    for _ in range(r.integers(1, 4)):
      if r.random() < 0.6:
        self.jointless(w, 0, 1)
      else:
        self.jointed(w, 0, True)
    return ET.tostring(root, encoding='unicode')


EDGE_DOCS = [
    '<mujoco><worldbody/></mujoco>',
    '<mujoco><worldbody><body name="A" pos="1 2 3"/></worldbody></mujoco>',
    '<mujoco><worldbody><body name="A"><geom name="g" size="0.1" pos="0.5 0 0"/></body></worldbody></mujoco>',
    '<mujoco><worldbody><body name="A" pos="0 0 0" quat="1 0 0 0"><geom name="g" size="0.1" pos="0.5 0 0"/>'
    '<site name="s" pos="0 1 0"/></body></worldbody></mujoco>',
    # three levels, pos only / both / quat-with-pos, a from-to capsule and a jointed body at the bottom
    '<mujoco><worldbody><body name="A" pos="0 0 1"><body name="B" pos="0.5 0 0" quat="0.6 0 0.8 0">'
    '<body name="C" pos="0 0.25 0" quat="0 0.6 0.8 0"><geom name="g" type="capsule" size="0.05" fromto="0 0 0 0.3 0 0"/>'
    '<site name="s" pos="0.1 0.2 0.3" quat="0.5 0.5 0.5 0.5"/>'
    '<body name="J" pos="0 0 0.5"><joint name="j" type="hinge" axis="0 1 0"/><geom name="h" size="0.1"/>'
    '<body name="D" pos="0.2 0 0"><geom name="k" type="box" size="0.1 0.2 0.3" quat="0.8 0.6 0 0"/></body>'
    '</body></body></body></body></worldbody></mujoco>',
    # jointless body under a jointed body, negative w, camera
    '<mujoco><worldbody><body name="J" pos="0 0 1"><freejoint name="f"/><geom name="h" size="0.1"/>'
    '<body name="A" pos="0.1 0 0" quat="-0.5 0.5 -0.5 0.5"><camera name="c" pos="0 0 0.2" quat="0 1 0 0"/>'
    '<geom name="g" type="cylinder" size="0.05" fromto="0 0 0 0 0.2 0.1"/></body></body></worldbody></mujoco>',
    # two jointless siblings: the promoted grandchildren are appended after the kept children
    '<mujoco><worldbody><body name="A" pos="1 0 0"><geom name="g1" size="0.1"/></body>'
    '<geom name="g0" size="0.1"/><body name="B" pos="0 1 0"><geom name="g2" size="0.1"/></body>'
    '<body name="J"><joint name="j" type="slide" axis="1 0 0"/><geom name="g3" size="0.1"/></body></worldbody></mujoco>',
]


# ----------------------------------------------------------------------------- MuJoCo side


def _compile(xml):
  import mujoco
  return mujoco.MjModel.from_xml_string(xml)


def _set_q(m, d, qmap):
  import mujoco
  for j in range(m.njnt):
    name = mujoco.mj_id2name(m, mujoco.mjtObj.mjOBJ_JOINT, j)
    a = m.jnt_qposadr[j]
    n = {0: 7, 1: 4, 2: 1, 3: 1}[int(m.jnt_type[j])]
    if name in qmap:
      d.qpos[a:a + n] = qmap[name][:n]


def _rand_q(m, rng):
  import mujoco
  out = {}
  for j in range(m.njnt):
    name = mujoco.mj_id2name(m, mujoco.mjtObj.mjOBJ_JOINT, j)
    ty = int(m.jnt_type[j])
    if ty == 0:
      q = rng.normal(size=4); q /= np.linalg.norm(q)
      out[name] = np.concatenate([rng.uniform(-1, 1, 3), q])
    elif ty == 1:
      q = rng.normal(size=4); q /= np.linalg.norm(q)
      out[name] = q
    else:
      out[name] = rng.uniform(-1, 1, 1)
  return out


def observe(m, qmap=None, fromto_names=()):
  """world pose of every named geom/site/camera/jointed body; composite inertia of moving bodies"""
  import mujoco
  d = mujoco.MjData(m)
  if qmap:
    _set_q(m, d, qmap)
  mujoco.mj_forward(m, d)
  obs = {}
  def ends(pos, mat, half):
    z = mat.reshape(3, 3)[:, 2]
    return np.concatenate([pos - half * z, pos + half * z])
  for i in range(m.ngeom):
    nm = mujoco.mj_id2name(m, mujoco.mjtObj.mjOBJ_GEOM, i)
    if nm is None:
      continue
    if ('g', nm) in fromto_names:
      obs[('g', nm)] = ('seg', ends(d.geom_xpos[i], d.geom_xmat[i], m.geom_size[i][1]), m.geom_size[i].copy())
    else:
      obs[('g', nm)] = ('frame', d.geom_xpos[i].copy(), d.geom_xmat[i].copy(), m.geom_size[i].copy())
  for i in range(m.nsite):
    nm = mujoco.mj_id2name(m, mujoco.mjtObj.mjOBJ_SITE, i)
    if nm is None:
      continue
    if ('s', nm) in fromto_names:
      obs[('s', nm)] = ('seg', ends(d.site_xpos[i], d.site_xmat[i], m.site_size[i][1]), m.site_size[i].copy())
    else:
      obs[('s', nm)] = ('frame', d.site_xpos[i].copy(), d.site_xmat[i].copy(), m.site_size[i].copy())
  for i in range(m.ncam):
    nm = mujoco.mj_id2name(m, mujoco.mjtObj.mjOBJ_CAMERA, i)
    if nm is not None:
      obs[('c', nm)] = ('frame', d.cam_xpos[i].copy(), d.cam_xmat[i].copy(), np.zeros(0))
  # composite inertia about the world origin of every weld group
  grp = {}
  for b in range(1, m.nbody):
    w = int(m.body_weldid[b])
    mass = float(m.body_mass[b])
    c = d.xipos[b]; R = d.ximat[b].reshape(3, 3)
    I = R @ np.diag(m.body_inertia[b]) @ R.T + mass * (np.dot(c, c) * np.eye(3) - np.outer(c, c))
    g = grp.setdefault(w, [0.0, np.zeros(3), np.zeros((3, 3))])
    g[0] += mass; g[1] = g[1] + mass * c; g[2] = g[2] + I
  for b in range(1, m.nbody):
    if m.body_jntnum[b] > 0:
      nm = mujoco.mj_id2name(m, mujoco.mjtObj.mjOBJ_BODY, b)
      if nm is None:
        continue
      obs[('b', nm)] = ('frame', d.xpos[b].copy(), d.xmat[b].copy(), np.zeros(0))
      g = grp[int(m.body_weldid[b])]
      obs[('I', nm)] = ('inertia', np.concatenate([[g[0]], g[1], g[2].ravel()]))
  return obs


def _close(a, b, tol):
  a, b = np.asarray(a, float), np.asarray(b, float)
  return a.shape == b.shape and bool(np.all(np.abs(a - b) <= tol * (1.0 + np.abs(b))))


def compare_obs(oa, ob, tol):
  """list of differences between two observation maps"""
  diffs = []
  for k in sorted(set(oa) | set(ob), key=lambda k: (k[0] == 'I', k)):
    if k not in oa or k not in ob:
      diffs.append(dict(elem=list(k), what='missing in ' + ('original' if k not in oa else 'fused')))
      continue
    a, b = oa[k], ob[k]
    if a[0] == 'seg':
      e1, e2 = a[1], b[1]
      sw = np.concatenate([e2[3:], e2[:3]])
      if not (_close(e1, e2, tol) or _close(e1, sw, tol)) or not _close(a[2], b[2], tol):
        diffs.append(dict(elem=list(k), what='end points', original=e1.tolist(), fused=e2.tolist()))
    elif a[0] == 'frame':
      if not _close(a[1], b[1], tol):
        diffs.append(dict(elem=list(k), what='world position', original=a[1].tolist(), fused=b[1].tolist()))
      elif not _close(a[2], b[2], tol):
        diffs.append(dict(elem=list(k), what='world orientation', original=a[2].tolist(), fused=b[2].tolist()))
      elif not _close(a[3], b[3], tol):
        diffs.append(dict(elem=list(k), what='size', original=a[3].tolist(), fused=b[3].tolist()))
    else:
      # mass, first moment, inertia about the world origin: all scale with the mass, compared
      # relative to the largest entry
      if not float(np.max(np.abs(a[1] - b[1]))) <= tol * (1.0 + float(np.max(np.abs(a[1])))):
        diffs.append(dict(elem=list(k), what='mass / first moment / inertia of the moving body',
                          original=a[1].tolist(), fused=b[1].tolist()))
  return diffs


def fromto_names(tree, out=None):
  out = set() if out is None else out
  for c in tree.get('ch', []):
    if c['t'] == 'L' and 'fromto' in c:
      out.add((c['k'], c['name']))
    if 'ch' in c:
      fromto_names(c, out)
  return out


def spec_check(xml, qseed=0):
  """leg 3 on one document.  None = property holds; else dict(kind, diffs)"""
  from brax.io import mjcf
  m0 = _compile(xml)                      # generator documents must compile: errors propagate
  fused = mjcf.fuse_bodies(xml)
  try:
    m1 = _compile(fused)
  except Exception as e:  # pylint: disable=broad-except
    return dict(kind=KEY_REJECT, diffs=[dict(what=f'MuJoCo rejects the fused document: {e}')], fused=fused)
  ft = fromto_names(xml_to_tree(ET.fromstring(xml)))
  rng = np.random.default_rng(qseed)
  for qmap in (None, _rand_q(m0, rng)):
    diffs = compare_obs(observe(m0, qmap, ft), observe(m1, qmap, ft), POSE_TOL)
    if diffs:
      return dict(kind=KEY_MOVED, diffs=diffs[:4], fused=fused, at='qpos0' if qmap is None else 'random q')
  return None


def classify(xml, res, d5):
  """key of a leg-3 failure; the D5 key is used only while defect D5 is live on this tree"""
  if res['kind'] == KEY_REJECT:
    return KEY_REJECT
  t = xml_to_tree(ET.fromstring(xml))
  return KEY_D5 if d5 and any_rot_only(t, need_content=True) else KEY_MOVED


def _cands(root):
  """shrinking steps on a fresh parse, in a fixed traversal order.  Joints are never removed on
  their own (that would turn a jointed body into a jointless one with an arbitrary quat)."""
  out = []
  for parent in root.iter():
    for i, ch in enumerate(list(parent)):
      if ch.tag in ('worldbody', 'joint', 'freejoint'):
        continue
      out.append(('del', parent, i, None))
      if ch.tag == 'body' and ch.find('joint') is None and ch.find('freejoint') is None and len(ch):
        out.append(('hoist', parent, i, None))
  for el in root.iter():
    for a in ('pos', 'quat'):
      if a in el.attrib:
        out.append(('attr', el, None, a))
  return out


def shrink(xml, kind, deadline, forbid_rot_only=False):
  """delta debugging: drop elements, splice jointless bodies out, drop pos/quat attributes while
  leg 3 still fails the same way (and the document stays inside the generator's language)"""
  def fails(x):
    if forbid_rot_only and any_rot_only(xml_to_tree(ET.fromstring(x)), need_content=True):
      return False
    try:
      r = spec_check(x)
    except Exception:  # pylint: disable=broad-except
      return False       # does not compile any more: not a candidate
    return r is not None and r['kind'] == kind
  cur = xml
  changed = True
  while changed and time.time() < deadline:
    changed = False
    n_c = len(_cands(ET.fromstring(cur)))
    for n in range(n_c):
      root2 = ET.fromstring(cur)
      op, el, i, a = _cands(root2)[n]
      if op == 'del':
        el.remove(list(el)[i])
      elif op == 'hoist':
        ch = list(el)[i]
        el.remove(ch)
        for j, gc in enumerate(list(ch)):
          el.insert(i + j, gc)
      else:
        del el.attrib[a]
      x = ET.tostring(root2, encoding='unicode')
      if fails(x):
        cur = x; changed = True
        break
      if time.time() > deadline:
        break
  return cur


# ----------------------------------------------------------------------------- legs 1 and 2


def compare_trees(a, b, depths, path='', out=None, stats=None):
  """a: parsed real fused XML, b: Lean model output.  Structure exact, numbers by tolerance."""
  out = [] if out is None else out
  def bad(msg):
    out.append(f'{path or "/"}: {msg}')
  if a['t'] != b['t']:
    bad(f'kind {a["t"]} vs model {b["t"]}'); return out
  if a.get('name', '') != b.get('name', '') or a.get('tag') != b.get('tag') or a.get('k') != b.get('k') \
      or a.get('free') != b.get('free'):
    bad(f'element {a.get("tag", a.get("k"))}:{a.get("name")} vs model {b.get("tag", b.get("k"))}:{b.get("name")}')
    return out
  if a['t'] in ('B', 'L'):
    k = depths.get((a['t'], a.get('k', 'b'), a['name']), 0)
    tol = 1e-12 if k == 0 else 5e-7 * (2 * k - 1) + 1e-9
    if ('fromto' in a) != ('fromto' in b):
      bad('fromto present on one side only'); return out
    for key in (('fromto', 'quat') if 'fromto' in a else ('pos', 'quat')):
      va, vb = a[key], b[key]
      if (va is None) != (vb is None):
        bad(f'attribute {key}: {"absent" if va is None else "present"} in the code output, '
            f'{"absent" if vb is None else "present"} in the model'); continue
      if va is None:
        continue
      err = float(np.max(np.abs(np.asarray(va) - np.asarray(vb))))
      if stats is not None:
        stats['max_err'][k] = max(stats['max_err'].get(k, 0.0), err)
      if not err <= tol:
        bad(f'{key} of {a["name"]}: code {va} model {vb} (|d|={err:.3g} > {tol:.3g}, {k} offsets)')
  if 'ch' in a:
    if len(a['ch']) != len(b['ch']):
      bad(f'{len(a["ch"])} children vs model {len(b["ch"])}: '
          f'{[c.get("name", c.get("tag")) for c in a["ch"]]} vs {[c.get("name", c.get("tag")) for c in b["ch"]]}')
      return out
    for i, (ca, cb) in enumerate(zip(a['ch'], b['ch'])):
      compare_trees(ca, cb, depths, f'{path}/{a.get("tag", a.get("name"))}[{i}]', out, stats)
  return out


def quat_to_mat(q):
  q = np.asarray(q, float); q = q / np.linalg.norm(q)
  w, x, y, z = q
  return np.array([[1 - 2 * (y * y + z * z), 2 * (x * y - w * z), 2 * (x * z + w * y)],
                   [2 * (x * y + w * z), 1 - 2 * (x * x + z * z), 2 * (y * z - w * x)],
                   [2 * (x * z - w * y), 2 * (y * z + w * x), 1 - 2 * (x * x + y * y)]])


def parse_entries(line):
  toks = line.split()
  if toks[0] != 'ok':
    raise RuntimeError(f'driver: {line[:200]}')
  n = int(toks[1]); i = 2; out = []
  for _ in range(n):
    anchor, kind, name, mode = toks[i][1:], toks[i + 1], toks[i + 2][1:], toks[i + 3]; i += 4
    m = 7 if mode == 'F' else 6
    vals = [parse_tok(t) for t in toks[i:i + m]]; i += m
    out.append((anchor, kind, name, mode, vals))
  return out


def spec_vs_mujoco(xml, entries, rng):
  """leg 2: Spec entries of the original document against MuJoCo's world poses of it"""
  import mujoco
  m = _compile(xml)
  bad = []
  for qmap in (None, _rand_q(m, rng)):
    d = mujoco.MjData(m)
    if qmap:
      _set_q(m, d, qmap)
    mujoco.mj_forward(m, d)
    for anchor, kind, name, mode, v in entries:
      if anchor == '':
        ap, aR = np.zeros(3), np.eye(3)
      else:
        bid = mujoco.mj_name2id(m, mujoco.mjtObj.mjOBJ_BODY, anchor)
        ap, aR = d.xpos[bid], d.xmat[bid].reshape(3, 3)
      if kind == 'b':
        if qmap is not None:
          continue                    # the relative pose of a jointed body is its pose at q = 0
        i = mujoco.mj_name2id(m, mujoco.mjtObj.mjOBJ_BODY, name)
        if m.body_jntnum[i] == 1 and m.jnt_type[m.body_jntadr[i]] == 0:
          pass                        # free joint: qpos0 is the body frame
        mp, mR, half, same = d.xpos[i], d.xmat[i].reshape(3, 3), None, 0
      elif kind == 'g':
        i = mujoco.mj_name2id(m, mujoco.mjtObj.mjOBJ_GEOM, name)
        mp, mR, half, same = d.geom_xpos[i], d.geom_xmat[i].reshape(3, 3), m.geom_size[i][1], m.geom_sameframe[i]
      elif kind == 's':
        i = mujoco.mj_name2id(m, mujoco.mjtObj.mjOBJ_SITE, name)
        mp, mR, half, same = d.site_xpos[i], d.site_xmat[i].reshape(3, 3), m.site_size[i][1], m.site_sameframe[i]
      else:
        i = mujoco.mj_name2id(m, mujoco.mjtObj.mjOBJ_CAMERA, name)
        mp, mR, half, same = d.cam_xpos[i], d.cam_xmat[i].reshape(3, 3), None, 0
      if i < 0:
        bad.append(f'{kind}:{name} not found in MuJoCo'); continue
      # MuJoCo's `sameframe` shortcut copies the body's (inertial) frame into a geom/site whose own
      # frame agrees with it to about 1e-6: its own world pose is then only that accurate
      tol = SPEC_TOL if not same else SPEC_TOL_SAMEFRAME
      if mode == 'F':
        wp = ap + aR @ np.asarray(v[:3]); wR = aR @ quat_to_mat(v[3:])
        if not (_close(wp, mp, tol) and _close(wR, mR, tol)):
          bad.append(f'{kind}:{name} spec pose {wp.tolist()} {wR.tolist()} mujoco {mp.tolist()} {mR.tolist()}')
      else:
        a = ap + aR @ np.asarray(v[:3]); b = ap + aR @ np.asarray(v[3:])
        ma, mb = mp - half * mR[:, 2], mp + half * mR[:, 2]
        if not ((_close(a, ma, tol) and _close(b, mb, tol))
                or (_close(a, mb, tol) and _close(b, ma, tol))):
          bad.append(f'{kind}:{name} spec ends {a.tolist()} {b.tolist()} mujoco {ma.tolist()} {mb.tolist()}')
  return bad


# ----------------------------------------------------------------------------- probes


def world_pos_of(xml, geom):
  import mujoco
  m = _compile(xml); d = mujoco.MjData(m); mujoco.mj_forward(m, d)
  return d.geom_xpos[mujoco.mj_name2id(m, mujoco.mjtObj.mjOBJ_GEOM, geom)].copy()


def probe(xml):
  """(geom g moves, original world pos of geom g, fused world pos, g left untouched by fuse_bodies)"""
  from brax.io import mjcf
  fused = mjcf.fuse_bodies(xml)
  a = world_pos_of(xml, 'g'); b = world_pos_of(fused, 'g')
  g0 = [e for e in ET.fromstring(xml).iter('geom') if e.get('name') == 'g'][0]
  g1 = [e for e in ET.fromstring(fused).iter('geom') if e.get('name') == 'g'][0]
  untouched = g0.attrib.get('pos') == g1.attrib.get('pos') and g0.attrib.get('quat') == g1.attrib.get('quat')
  return bool(np.max(np.abs(a - b)) > POSE_TOL), a.tolist(), b.tolist(), untouched


def d5_live():
  """defect D5 is present: the rotation-only body is removed *without offsetting its geom*"""
  moved, a, b, untouched = probe(D5_XML)
  return moved and untouched, a, b


# ----------------------------------------------------------------------------- API


def documents(ctx, rng, n):
  g = Gen(rng)
  docs = list(EDGE_DOCS)
  while len(docs) < n:
    docs.append(g.doc())
  return docs


def correspond(ctx):
  from brax.io import mjcf
  rng = np.random.default_rng(ctx.seed)
  C.lake_build(['Brax.Spec.C13', 'Brax.Model.Wire'], os.path.join(ctx.work, 'drv.log'))
  n_docs = ctx.budget(200, 5000)
  docs = documents(ctx, rng, n_docs)

  d5, d5a, d5b = d5_live()
  f8, f8a, f8b, _ = probe(F8_XML)
  variant = 'P' if d5 else 'F'

  # ---- Lean side: two lines per document
  lines, trees = [], []
  for xml in docs:
    t = xml_to_tree(ET.fromstring(xml))
    trees.append(t)
    toks = ' '.join(tree_to_tokens(t, []))
    lines.append(f'fuse {variant} {toks}')
    lines.append(f'entries {toks}')
  out = C.run_driver('Driver/C13.lean', lines)
  if len(out) != len(lines):
    raise RuntimeError(f'driver returned {len(out)} lines for {len(lines)} cases')

  disagreements, spec_failures = [], {}
  stats = dict(max_err={})
  hist = {}
  distinct = set()
  n_eval = 0
  t_shrink = time.time() + ctx.budget(40, 300)
  n_fail = {}
  for idx, (xml, tree) in enumerate(zip(docs, trees)):
    o_fuse, o_ent = out[2 * idx], out[2 * idx + 1]
    if not o_fuse.startswith('ok ') or not o_ent.startswith('ok '):
      raise RuntimeError(f'driver rejected a generated document: {o_fuse[:80]} / {xml}')
    ft = o_fuse.split()
    n_jl, n_ro = int(ft[1]), int(ft[2])
    model_tree, used = tokens_to_tree(ft, 3)
    if used != len(ft):
      raise RuntimeError('driver answer has trailing tokens')
    doc_stats(tree, hist)
    hist['docs_with_rot_only'] = hist.get('docs_with_rot_only', 0) + int(n_ro > 0)
    if n_jl:
      distinct.add(hashlib.sha1(xml.encode()).hexdigest())
    # leg 1 ------------------------------------------------------------------
    real = mjcf.fuse_bodies(xml)
    real_tree = xml_to_tree(ET.fromstring(real))
    diffs = compare_trees(real_tree, model_tree, chain_depths(tree), stats=stats)
    n_eval += 1
    if diffs and len(disagreements) < 5:
      disagreements.append(dict(what=f'mjcf.fuse_bodies differs from the Lean model (guard variant {variant}): {diffs[0]}',
                                xml=xml, real=real, diffs=diffs[:5]))
    # leg 2 ------------------------------------------------------------------
    bad = spec_vs_mujoco(xml, parse_entries(o_ent), rng)
    n_eval += 1
    if bad and len(disagreements) < 5:
      disagreements.append(dict(what=f'Spec relPose differs from MuJoCo on the original document: {bad[0]}',
                                xml=xml, diffs=bad[:5]))
    # leg 3 ------------------------------------------------------------------
    res = spec_check(xml, qseed=ctx.seed + idx)
    n_eval += 1
    if res is not None:
      key = classify(xml, res, d5)
      n_fail[key] = n_fail.get(key, 0) + 1
      if key not in spec_failures:
        small = shrink(xml, res['kind'], t_shrink, forbid_rot_only=(d5 and key != KEY_D5))
        r2 = spec_check(small) or res
        key2 = classify(small, r2, d5)
        spec_failures.setdefault(key2, dict(
            key=key2, xml=small, original_xml=xml, fused=r2.get('fused'), diffs=r2['diffs'],
            what=f'mjcf.fuse_bodies moves {r2["diffs"][0].get("elem")}: {r2["diffs"][0].get("what")} '
                 f'{r2["diffs"][0].get("original")} -> {r2["diffs"][0].get("fused")}'))
        if key2 != key:
          spec_failures.setdefault(key, dict(key=key, xml=xml, fused=res.get('fused'), diffs=res['diffs'],
                                             what=f'mjcf.fuse_bodies moves {res["diffs"][0].get("elem")}'))
  if d5 and KEY_D5 not in spec_failures:
    spec_failures[KEY_D5] = dict(key=KEY_D5, xml=D5_XML, what=f'D5 witness: geom g at {d5a} is at {d5b} after fuse_bodies')
  # the D5 witness is reported in its minimal form
  if d5:
    spec_failures[KEY_D5].update(witness_xml=D5_XML, witness_original=d5a, witness_fused=d5b)

  sf = [spec_failures[k] for k in sorted(spec_failures)]
  return dict(
      evaluations=n_eval, distinct_nontrivial=len(distinct),
      rule='distinct = generated documents (by SHA-1 of the XML) that contain at least one jointless body; every '
           'document goes through leg 1 (real fuse_bodies vs Lean model: structure exact, numbers within the '
           "'%f' print), leg 2 (Lean Spec vs MuJoCo poses of the original, 1e-9) and leg 3 (MuJoCo original vs "
           'real fused, 1e-5, at qpos0 and at one random configuration)',
      samples=[dict(xml=docs[len(EDGE_DOCS)]), dict(xml=docs[-1]), dict(edge=EDGE_DOCS[4])],
      disagreements=disagreements, spec_failures=sf,
      trusted_base=[
          'C13 correspondence harness (harness/corr_C13.py): XML<->tree encoding, generator, tolerances',
          'xml.etree.ElementTree parsing/printing, np.fromstring, and the %f six-decimal print in mjcf._offset '
          '(modelled as exact; absorbed by the tolerance 5e-7 per applied offset)',
          'MuJoCo 3 XML compiler and mj_forward as the reference for world poses, masses and inertias',
          'C09 bridge lemmas tie rotate_np / quat_mul_np (generated from brax/math.py) to the hand model used here',
      ],
      assumptions=[
          'theorems are exact identities over ordered fields: IEEE round-off and the six-decimal print are not modelled',
          'hypothesis (a): quat of every jointless body is a unit quaternion (F8: quat="2 0 0 0" moves a geom from '
          f'{f8a} to {f8b} on the real code; reproduces={f8})',
          'hypothesis (b), pinned guard only: no jointless body with zero pos and non-identity quat (defect D5; '
          f'reproduces on this tree={d5}; model guard variant in force: {"pinned" if d5 else "patched"})',
          'hypothesis (c): jointless bodies hold only body/geom/site/camera elements (inertial, light, frame are not '
          'offset by the code and are outside the generator); orientation is given by quat only (no euler/axisangle/'
          'xyaxes/zaxis), no childclass on jointless bodies, free joints only on children of the world',
      ],
      explanation='Model = Spec is proved for every document (Props/C13.lean); leg 1 ties the model to the code, leg 2 '
                  'ties the Spec to MuJoCo, leg 3 is the property observed on the real code.',
      extra=dict(documents=len(docs), guard_variant='pinned' if d5 else 'patched', D5_reproduces=d5,
                 D5_witness=dict(original=d5a, fused=d5b), F8_nonunit_quat=dict(reproduces=f8, original=f8a, fused=f8b),
                 distribution=hist, leg3_failures_by_key=n_fail,
                 leg1_max_abs_err_by_offsets={str(k): v for k, v in sorted(stats['max_err'].items())}))


def search(ctx, broken, corr):
  """leg 3 (the Spec evaluated on the real code) over fresh generator documents, shrunk"""
  rng = np.random.default_rng(ctx.seed + 1000003)
  g = Gen(rng)
  t_end = time.time() + ctx.budget(45, 480)
  found = {}
  d5 = d5_live()[0]
  cands = [d['xml'] for d in corr.get('disagreements', []) if 'xml' in d]
  n = 0
  while time.time() < t_end and len(found) < 2:
    xml = cands.pop(0) if cands else g.doc()
    n += 1
    try:
      res = spec_check(xml, qseed=n)
    except Exception:  # pylint: disable=broad-except
      continue
    if res is None:
      continue
    small = shrink(xml, res['kind'], min(t_end, time.time() + 20),
                   forbid_rot_only=(d5 and classify(xml, res, d5) != KEY_D5))
    r2 = spec_check(small) or res
    key = classify(small, r2, d5)
    if key not in found:
      found[key] = dict(key=key, xml=small, original_xml=xml, fused=r2.get('fused'), diffs=r2['diffs'],
                        what=f'mjcf.fuse_bodies moves {r2["diffs"][0].get("elem")}: {r2["diffs"][0].get("what")} '
                             f'{r2["diffs"][0].get("original")} -> {r2["diffs"][0].get("fused")}')
  return [found[k] for k in sorted(found)]


def replay(ctx, rp):
  if rp.get('kind') != 'failing-input':
    return True, f'replay names broken obligations only: {rp.get("broken")}'
  res = spec_check(rp['xml'])
  if res is None:
    return True, 'fused document agrees with the original (MuJoCo, 1e-5) on this input'
  return False, f'{res["kind"]}: {res["diffs"][0]}'


def reproduce_known(ctx, entry):
  if entry.get('key') == KEY_D5:
    return d5_live()[0]
  if entry.get('key') == KEY_F8:
    return probe(F8_XML)[0]
  if 'xml' in entry:
    return spec_check(entry['xml']) is not None
  return True
